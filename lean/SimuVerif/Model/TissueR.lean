import SimuVerif.Model.Tissue
import SimuVerif.Model.PipelineR
/-
  C14 — ONE executable model of a whole `solver::run_iteration` (/repo/src/solver.cpp) for a TISSUE of interacting epithelial
  cells INCLUDING `refine_meshes` and the `rebase` of `save_mesh`, default build (CONTACT_MODEL_INDEX 1, DYNAMIC_MODEL_INDEX 0,
  POLARIZATION_MODE_INDEX 1), one thread.  It combines `Model/Tissue.lean` (N interacting cells, no remeshing) with
  `Model/PipelineR.lean` (one free cell through remeshing): every cell is kept as the `Remesh.Cell` of C01 (node slots with used
  flag, face slots with used flag / cached normal / area, edge index in `std::set` order with the face ids as stored, both free
  queues) plus the per-slot node attributes the contact model reads and writes (`Attrs`: `force_`, `normal_`, `curvature_`,
  `coupled_node_`, `squared_distance_to_closest_node_`).  Released slots PERSIST between iterations (the code calls `rebase`
  only through `save_mesh`), so every phase runs on meshes with unused node / face slots; what each phase does with them was
  read in the code and is modelled as written there:

    1. `save_mesh()`            `Gen.fileNumber`, `Gen.saveCond`; `mesh_writer::write` → `parallel_exception_handler(cell_lst,
                                rebase)`: EVERY cell is rebased (an exception does not stop the loop; the one rethrown is the
                                last one stored = the one of the last throwing cell in the 1-thread order: `collect`).
                                `remove_index(node_lst_, free queue)` moves the node OBJECTS: their attributes move with them
                                (`keepIdx`); `coupled_node_` entries of OTHER cells are not renumbered (stale; they are reset in
                                5a before anything reads them)                                                      — `saveMeshT`
    2. `cell_divider::run`      nothing happens unless some cell `is_ready_to_divide()`                             — `readyT` (domain)
    3. `update_face_types()`    epithelial: the type of EVERY face slot := 0                                        — `PipelineR.faceTypes`
    4. `refine_meshes`          `parallel_exception_handler(cell_lst, refine_mesh)`: every cell, same exception rule (`collect`);
                                per cell `Remesh.refineMesh`.  Node attributes: `split_edge` / `merge_edge` build the new node
                                with `node n(pos, 0)` (normal 0, curvature 0, no coupling, closest distance 0, force 0) and
                                `add_node` COPIES it into the slot (`Attrs.alloc`); `delete_node` → `node::reset` clears force and
                                coupling and leaves `normal_`, `curvature_`, `squared_distance_to_closest_node_` (`Attrs.release`);
                                the slots are those the pass takes, replayed from its operation log (`replayLog`)        — `refineCell`
    5. contact model            a. `face_lst_` / `global_face_id_`: the USED faces of the cells in list order (`view`: the face
                                   list handed to the search is `liveF`, with the cached geometry of the used slots);
                                   `coupled_node_ := nullopt`, closest distance := max() for the USED nodes only       — `resetMutR`
                                b. boxes, grid: from `face_lst_`, i.e. the used faces                                 — `Tissue.mkGrid` on the views
                                c. the search visits the node slots in order and skips `!n.is_used()`                 — `contactSearchR`
                                d. loops (A), (B) of `resolve_all_contacts` test `is_used()`                          — `Coupling.pass` on `toPopR`
    6. `special_polarization_update`  used faces only; `c2->get_edge(…).has_value()` reads the EDGE INDEX of the other cell
                                                                                                                      — `polariseR`
    7. `apply_internal_forces`  cache of the used faces refreshed; area, volume, target volume, pressure from the used faces;
                                forces of `Forces.internalContribsSlots` (edge index as the refiner left it) ADDED to the contact
                                forces; `compute_node_curvature_and_normals`: curvature / normal of EVERY slot := 0, face loop over
                                the used faces, edge loop over the edge index as stored (which face is `f1` decides which incident
                                area a node gets), last loop over the used nodes                                      — `applyInternalForcesR`, `nodeNormalsH`
    8. `update_nodes_positions` used nodes; `get_node_mass()` = density · volume / (`node_lst_.size()` − `free_node_queue_.size()`)
                                (`Integ.CellT.mass` counts the unused slots: equal to the queue length when `queueOk`)    — `integrateR`
   10. removal                  — `belowMinT` (domain)
   11. `iteration_++`

  A position of a released slot (`node::reset` wrote (0,0,0) there) is never read by steps 5–8 when the meshes are consistent
  (`cellMeshOk`: used faces have used corners, couplings name used slots …); the position lookups of those steps are totalised for
  such slots with the position of the first used node of the cell (`PipelineR.posT`, `viewPos`), as in Model/PipelineR.lean.

  `tissueIterationR` is total (`Except`: the exception that leaves `run_iteration`); `stepOkTR` says whether the state is in the
  domain where it IS the code and where the theorems of Properties/C14TissueR.lean apply.  Division and removal are outside.

  Core Lean only (compiled into `drv_c14`); polymorphic in the scalar.
-/
namespace Simu.TissueR
open Simu Simu.Forces Simu.Gen

/-- the per-slot node attributes besides position / momentum / used flag (which live in `Remesh.Node`) -/
structure Attrs (R : Type) where
  force : Array (V3 R)                     -- node::force_
  normal : Array (V3 R)                    -- node::normal_
  curv : Array R                           -- node::curvature_
  coup : Array (Option (Nat × Nat))        -- node::coupled_node_
  sqd : Array R                            -- node::squared_distance_to_closest_node_

/-- a cell: mesh bookkeeping of C01 + node attributes + cell scalars -/
structure CellTR (R : Type) where
  k : Tissue.CellK R
  mesh : Remesh.Cell R
  a : Attrs R
  area : R
  volume : R
  tvol : R
  pressure : R

structure StateTR (R : Type) where
  iter : Nat                 -- solver::iteration_
  time : R                   -- simulation_time_
  fileNo : Int               -- solver::file_number_
  cells : List (CellTR R)    -- cell_lst_
  /-- false once `Coupling.pass` was undefined -/
  defined : Bool

structure ConstsTR (R : Type) where
  base : Tissue.Consts R
  samplingPeriod : R         -- sampling_period_
  swapOn : Bool              -- enable_edge_swap_operation_
  /-- fuel of the model of the `while` loop of `refine_mesh` (see Model/PipelineR.lean) -/
  maxIter : Nat

variable {R : Type} [Add R] [Sub R] [Mul R] [Div R] [Neg R] [Lit R] [LT R] [LE R] [DecidableLT R] [DecidableLE R] [DecidableEq R]

/-- the constants of the single-cell definitions of Model/PipelineR.lean for a cell of this tissue -/
def kR (K : ConstsTR R) (k : Tissue.CellK R) : PipelineR.ConstsR R :=
  ⟨Tissue.pconsts K.base k, K.samplingPeriod, K.swapOn, K.maxIter⟩

/-! ### exceptions in `parallel_exception_handler` (one thread) -/

/-- every element is processed; the exception rethrown after the loop is the LAST one stored -/
def collect {ε α : Type} : List (Except ε α) → Except ε (List α)
  | [] => .ok []
  | r :: rest =>
    match collect rest, r with
    | .error e, _ => .error e
    | .ok _, .error e => .error e
    | .ok l, .ok x => .ok (x :: l)

/-! ### 1. save_mesh -/

/-- `remove_index(v, free)` on a per-slot table -/
def keepIdx {α : Type} (free : List Nat) (a : Array α) : Array α :=
  if free.isEmpty then a else ((a.toList.zipIdx.filter (fun p => !free.contains p.2)).map (·.1)).toArray

def Attrs.keep (free : List Nat) (A : Attrs R) : Attrs R :=
  ⟨keepIdx free A.force, keepIdx free A.normal, keepIdx free A.curv, keepIdx free A.coup, keepIdx free A.sqd⟩

/-- `cell::rebase`: the node objects that stay keep their attributes -/
def rebaseCell (c : CellTR R) : Except Remesh.Err (CellTR R) :=
  (Remesh.rebase c.mesh).map fun m => { c with mesh := m, a := c.a.keep c.mesh.freeNodes }

def saveMeshT (fn : Fn R) (K : ConstsTR R) (s : StateTR R) : Except Remesh.Err (StateTR R) :=
  if Gen.saveCond (Gen.fileNumber fn s.time K.samplingPeriod) s.fileNo then
    (collect (s.cells.map rebaseCell)).map fun cs =>
      { s with cells := cs, fileNo := Gen.fileNumber fn s.time K.samplingPeriod }
  else .ok s

/-! ### 3., 4. update_face_types, refine_meshes -/

def setOrPush {α : Type} (a : Array α) (i : Nat) (v : α) : Array α :=
  if i < a.size then a.setIfInBounds i v else a.push v

/-- `add_node(node(pos, 0))` into slot `i` -/
def Attrs.alloc (A : Attrs R) (i : Nat) : Attrs R :=
  ⟨setOrPush A.force i vzero, setOrPush A.normal i vzero, setOrPush A.curv i (lit 0), setOrPush A.coup i none,
   setOrPush A.sqd i (lit 0)⟩

/-- `delete_node(i)` → `node::reset` -/
def Attrs.release (A : Attrs R) (i : Nat) : Attrs R :=
  { A with force := A.force.setIfInBounds i vzero, coup := A.coup.setIfInBounds i none }

/-- one logged operation of `refine_mesh` (split?, a, b, l²) on (attributes, free node queue, number of node slots):
    a split takes one slot; a collapse takes one slot and then releases `a` and `b` (in that order) -/
def replayOp (st : Attrs R × List Nat × Nat) (op : Bool × Nat × Nat × R) : Attrs R × List Nat × Nat :=
  let i : Nat := match st.2.1 with | i :: _ => i | [] => st.2.2
  let free1 : List Nat := match st.2.1 with | _ :: r => r | [] => []
  let n1 : Nat := match st.2.1 with | _ :: _ => st.2.2 | [] => st.2.2 + 1
  let A1 := st.1.alloc i
  if op.1 then (A1, free1, n1)
  else ((A1.release op.2.1).release op.2.2.1, op.2.2.1 :: op.2.1 :: free1, n1)

/-- the attributes after the pass whose log (newest first) is `log`, started on the mesh `m` -/
def replayLog (A : Attrs R) (m : Remesh.Cell R) (log : List (Bool × Nat × Nat × R)) : Attrs R × List Nat × Nat :=
  log.reverse.foldl replayOp (A, m.freeNodes, m.nodes.size)

/-- steps 3 and 4 for one cell -/
def refineCell (fn : Fn R) (K : ConstsTR R) (c : CellTR R) : Except Remesh.Err (CellTR R) :=
  let m0 := PipelineR.faceTypes (kR K c.k) c.mesh
  let r := Remesh.refineMesh fn (Gen.refineConsts fn) (PipelineR.lminSq (kR K c.k)) (PipelineR.lmaxSq (kR K c.k)) K.swapOn m0 K.maxIter
  (PipelineR.refineResult r).map fun m => { c with mesh := m, a := (replayLog c.a m0 r.2.2).1 }

/-- steps 1, 3, 4 -/
def meshStageT (fn : Fn R) (K : ConstsTR R) (s : StateTR R) : Except Remesh.Err (StateTR R) :=
  (saveMeshT fn K s).bind fun s1 =>
  (collect (s1.cells.map (refineCell fn K))).map fun cs => { s1 with cells := cs }

/-! ### the cell as the contact model of Model/Tissue.lean sees it -/

/-- `node_lst_[i].pos_` of the used slots, totalised with the first used node (`PipelineR.posT`) -/
def viewPos (m : Remesh.Cell R) : Pipeline.Slots (V3 R) :=
  ⟨m.nodes.map (fun n => if n.used then n.pos else PipelineR.anchor m), fun _ => PipelineR.anchor m⟩

/-- cached `normal_`, `area_` of the used faces in slot order -/
def liveGeom (m : Remesh.Cell R) : Array (V3 R × R) :=
  (m.faces.toList.filterMap fun f => if f.used then some (f.normal, f.area) else none).toArray

/-- the `Tissue.Cell` of the used faces: what `face_lst_` of the contact model, the boxes and the grid are built from -/
def view (c : CellTR R) : Tissue.Cell R :=
  { k := c.k, pos := viewPos c.mesh, mom := c.mesh.nodes.map (fun n => n.mom), force := c.a.force, normal := c.a.normal,
    curv := c.a.curv, coup := c.a.coup, sqd := c.a.sqd, faces := PipelineR.liveF c.mesh, fgeom := liveGeom c.mesh,
    area := c.area, volume := c.volume, tvol := c.tvol, pressure := c.pressure }

/-! ### 5. the contact model -/

/-- 5a. reset of the USED nodes -/
def resetMutR (K : Tissue.Consts R) (c : CellTR R) : Tissue.Mut R :=
  ⟨c.a.coup.mapIdx (fun i q => if Remesh.usedN c.mesh i then none else q),
   c.a.sqd.mapIdx (fun i d => if Remesh.usedN c.mesh i then K.big else d), c.a.force⟩

def usedArr (cells : List (CellTR R)) : Array (Array Bool) := (cells.map fun c => c.mesh.nodes.map (fun n => n.used)).toArray

def usedAt (U : Array (Array Bool)) (k : Nat × Nat) : Bool :=
  match U[k.1]? with
  | some a => (match a[k.2]? with | some b => b | none => false)
  | none => false

/-- 5a–5c: couplings, closest distances and forces after the search -/
def contactSearchR (fn : Fn R) (K : Tissue.Consts R) (cells : List (CellTR R)) : Array (Tissue.Mut R) :=
  let V := cells.map view
  let geo := (V.map Tissue.Cell.geo).toArray
  let ctx := Tissue.mkGrid fn K V
  let U := usedArr cells
  let gf := Tissue.faceIndex V
  (Tissue.slotOrder V).foldl
    (fun st k => if usedAt U k then Tissue.nodeSearch fn (Tissue.cparams K) geo gf (Tissue.gridCandidates fn ctx) st k else st)
    (cells.map (resetMutR K)).toArray

def writeMutR (cells : List (CellTR R)) (st : Array (Tissue.Mut R)) : List (CellTR R) :=
  cells.zipIdx.map fun ci =>
    match st[ci.2]? with
    | some m => { ci.1 with a := { ci.1.a with coup := m.coup, sqd := m.sqd, force := m.force } }
    | none => ci.1

/-- the nodes as the two tail loops see them -/
def toPopCell (c : CellTR R) : List (Coupling.CNode R) :=
  let x := viewPos c.mesh
  (List.range c.mesh.nodes.size).map fun i => ⟨Remesh.usedN c.mesh i, c.a.coup.getD i none, x.get i⟩

def toPopR (cells : List (CellTR R)) : Coupling.Pop R := cells.map toPopCell

/-- couplings of all slots and positions of the USED slots written back -/
def ofPopCellR (c : CellTR R) (l : List (Coupling.CNode R)) : CellTR R :=
  let a := l.toArray
  { c with
    a := { c.a with coup := c.a.coup.mapIdx fun i q => ((a[i]?).map fun n => n.coup).getD q }
    mesh := { c.mesh with nodes := c.mesh.nodes.mapIdx fun i n =>
                if n.used then { n with pos := ((a[i]?).map fun x => x.pos).getD n.pos } else n } }

def ofPopR (cells : List (CellTR R)) (p : Coupling.Pop R) : List (CellTR R) :=
  cells.zipIdx.map fun ci =>
    match p[ci.2]? with
    | some l => ofPopCellR ci.1 l
    | none => ci.1

/-- 5. `contact_node_node_via_coupling::run`; the flag is false when 5d was undefined -/
def contactRunR (fn : Fn R) (K : Tissue.Consts R) (cells : List (CellTR R)) : List (CellTR R) × Bool :=
  let cells1 := writeMutR cells (contactSearchR fn K cells)
  match Coupling.pass (toPopR cells1) with
  | some p => (ofPopR cells1 p, true)
  | none => (cells1, false)

/-! ### 6. special_polarization_update -/

/-- `cell_lst[i]->get_edge(a, b).has_value()` -/
def hasEdgeR (cells : List (CellTR R)) (i a b : Nat) : Bool :=
  match cells[i]? with
  | some c2 => (Remesh.getEdge c2.mesh a b).isSome
  | none => false

def polariseFaceR (cells : List (CellTR R)) (c : CellTR R) (f : Remesh.Face R) : Remesh.Face R :=
  if f.used then
    match c.a.coup.getD f.n1 none, c.a.coup.getD f.n2 none, c.a.coup.getD f.n3 none with
    | some q1, some q2, some q3 =>
      { f with typ := Gen.NodeNormals.polariseDecision (c.a.normal.getD f.n1 vzero) (c.a.normal.getD f.n2 vzero)
                        (c.a.normal.getD f.n3 vzero) f.normal q1.1 q2.1 q3.1
                        (hasEdgeR cells q1.1 q1.2 q2.2) (hasEdgeR cells q1.1 q2.2 q3.2) (hasEdgeR cells q1.1 q3.2 q1.2) }
    | _, _, _ => f
  else f

def polariseCellR (cells : List (CellTR R)) (c : CellTR R) : CellTR R :=
  if c.k.kind = 0 then { c with mesh := { c.mesh with faces := c.mesh.faces.map (polariseFaceR cells c) } } else c

def polariseR (cells : List (CellTR R)) : List (CellTR R) := cells.map (polariseCellR cells)

/-! ### 7. apply_internal_forces -/

open Simu.Gen.NodeNormals in
/-- `cell::compute_node_curvature_and_normals` over a given edge list `H` (in the order of the loop over `edge_set_`):
    (`curvature_`, `normal_`) of the `n` node slots before the last loop selects the used ones -/
def nodeNormalsH (fx : FX R) (x : Nat → V3 R) (F : List Forces.Face) (H : List Forces.Hinge) (volume : R) (n : Nat) :
    Array (R × V3 R) :=
  let nsum : Array (V3 R) := F.foldl (fun acc f =>
      let g := faceGeom fx x f
      let v := nnFaceTerm g.1 g.2
      ((acc.modify f.a (fun w => w + v)).modify f.b (fun w => w + v)).modify f.c (fun w => w + v))
    (Array.replicate n V3.zero)
  let thr := curvThreshold fx volume
  let im : Array R × Array (V3 R) := H.foldl (fun im h =>
      let r := nnEdge fx (x h.n1) (x h.n2) (x h.n3) (x h.n4) (faceGeom fx x h.f1).2 (faceGeom fx x h.f2).2
                 (im.1.getD h.n1 (lit 0)) (im.1.getD h.n2 (lit 0)) (im.2.getD h.n1 V3.zero) (im.2.getD h.n2 V3.zero)
      ((im.1.setIfInBounds h.n1 r.1).setIfInBounds h.n2 r.2.1, (im.2.setIfInBounds h.n1 r.2.2.1).setIfInBounds h.n2 r.2.2.2))
    (Array.replicate n (lit 0), Array.replicate n V3.zero)
  (Array.replicate n ()).mapIdx fun i _ => nnFinish fx (nsum.getD i V3.zero) (im.2.getD i V3.zero) (im.1.getD i (lit 0)) thr

def applyInternalForcesR (fx : FX R) (K : Tissue.Consts R) (c : CellTR R) : CellTR R :=
  let m := c.mesh
  let x := (viewPos m).get
  let p := Pipeline.forceParams (Tissue.pconsts K c.k) c.tvol
  let pre := prelude fx x (PipelineR.liveF m) p
  let S := PipelineR.slots m
  let E := PipelineR.edgeRecs m
  let nrm := nodeNormalsH fx x (PipelineR.liveF m) (E.map (hingeOfEdge S)) pre.volume m.nodes.size
  { c with
    mesh := PipelineR.refreshGeom fx m
    a := { c.a with
      force := Tissue.accumulateFrom c.a.force (internalContribsSlots fx x S E p)
      -- every slot is reset to 0; only the used ones are computed
      curv := m.nodes.mapIdx fun i n => if n.used then (nrm.getD i (lit 0, vzero)).1 else lit 0
      normal := m.nodes.mapIdx fun i n => if n.used then (nrm.getD i (lit 0, vzero)).2 else vzero }
    area := pre.area, volume := pre.volume, tvol := pre.tvol, pressure := pre.pressure }

/-! ### 8. update_nodes_positions -/

def topoR (cells : List (CellTR R)) : List (Integ.CellT R) :=
  cells.zipIdx.map fun ci =>
    { localId := ci.2, kind := ci.1.k.kind, density := ci.1.k.density, volume := ci.1.volume,
      nodes := (List.range ci.1.mesh.nodes.size).map fun i => ⟨Remesh.usedN ci.1.mesh i, (ci.1.a.coup.getD i none).toList⟩ }

def toDynCell (c : CellTR R) : List (Integ.Dyn R) :=
  let x := viewPos c.mesh
  (List.range c.mesh.nodes.size).map fun i =>
    ⟨x.get i, ((c.mesh.nodes[i]?).map fun n => n.mom).getD V3.zero, c.a.force.getD i V3.zero⟩

def toDynR (cells : List (CellTR R)) : Integ.DynS R := cells.map toDynCell

/-- position, momentum, force of the USED slots written back -/
def ofDynCellR (c : CellTR R) (l : List (Integ.Dyn R)) : CellTR R :=
  let a := l.toArray
  { c with
    a := { c.a with force := c.a.force.mapIdx fun i f => if Remesh.usedN c.mesh i then ((a[i]?).map fun x => x.force).getD f else f }
    mesh := { c.mesh with nodes := c.mesh.nodes.mapIdx fun i n =>
                if n.used then { n with pos := ((a[i]?).map fun x => x.pos).getD n.pos, mom := ((a[i]?).map fun x => x.mom).getD n.mom }
                else n } }

def ofDynR (cells : List (CellTR R)) (d : Integ.DynS R) : List (CellTR R) :=
  cells.zipIdx.map fun ci =>
    match d[ci.2]? with
    | some l => ofDynCellR ci.1 l
    | none => ci.1

def integrateR (K : Tissue.Consts R) (time : R) (cells : List (CellTR R)) : R × List (CellTR R) :=
  let s := Integ.step .nodeNode .semiImplicit (topoR cells) K.dt K.damping ⟨time, toDynR cells⟩
  (s.time, ofDynR cells s.dyn)

/-! ### the iteration -/

/-- steps 5, 6, 7: the state in front of `update_nodes_positions` -/
def beforeIntegrationR (fn : Fn R) (fx : FX R) (K : Tissue.Consts R) (cells : List (CellTR R)) : List (CellTR R) × Bool :=
  let r := contactRunR fn K cells
  ((polariseR r.1).map (applyInternalForcesR fx K), r.2)

/-- steps 8, 11, given the result `r` of steps 5–7 -/
def physFrom (K : ConstsTR R) (s : StateTR R) (r : List (CellTR R) × Bool) : StateTR R :=
  let i := integrateR K.base s.time r.1
  { iter := s.iter + 1, time := i.1, fileNo := s.fileNo, cells := i.2, defined := s.defined && r.2 }

/-- steps 5–8, 11 -/
def physStage (fn : Fn R) (fx : FX R) (K : ConstsTR R) (s : StateTR R) : StateTR R :=
  physFrom K s (beforeIntegrationR fn fx K.base s.cells)

/-- one `solver::run_iteration` -/
def tissueIterationR (fn : Fn R) (fx : FX R) (K : ConstsTR R) (s : StateTR R) : Except Remesh.Err (StateTR R) :=
  (meshStageT fn K s).map (physStage fn fx K)

/-- n iterations (an exception ends the run) -/
def tissueRunR (fn : Fn R) (fx : FX R) (K : ConstsTR R) : Nat → StateTR R → Except Remesh.Err (StateTR R)
  | 0, s => .ok s
  | n + 1, s => (tissueIterationR fn fx K s).bind (tissueRunR fn fx K n)

/-! ### the domain: when is `tissueIterationR` the code, and when do the theorems apply? -/

/-- 2. `cell_divider::run` would divide the cell -/
def readyT (iter : Nat) (c : CellTR R) : Bool :=
  iter % Gen.CellCycle.divisionPeriod == 0 && c.k.kind == 0 && Gen.CellCycle.readyEpithelial c.volume c.k.divVol

/-- the attribute tables have one entry per node slot -/
def attrsOk (c : CellTR R) : Bool :=
  c.a.force.size == c.mesh.nodes.size && c.a.normal.size == c.mesh.nodes.size && c.a.curv.size == c.mesh.nodes.size
  && c.a.coup.size == c.mesh.nodes.size && c.a.sqd.size == c.mesh.nodes.size

/-- `free_node_queue_` lists exactly the unused slots (so `get_nb_of_nodes()` is the number of used slots) -/
def queueOk (m : Remesh.Cell R) : Bool :=
  m.freeNodes.length == (m.nodes.toList.filter fun n => !n.used).length && m.freeNodes.all fun i => !Remesh.usedN m i

/-- every used node slot is a corner of a used face (so it lies in the hull of the face boxes) -/
def usedCovered (m : Remesh.Cell R) : Bool :=
  (List.range m.nodes.size).all fun i =>
    !Remesh.usedN m i || (PipelineR.liveF m).any fun f => f.a == i || f.b == i || f.c == i

/-- the two faces of every edge of the index are USED face slots (their cached areas are then the ones refreshed in step 7) -/
def edgeFacesUsed (m : Remesh.Cell R) : Bool :=
  m.edges.all fun e =>
    (match m.faces[e.f1.getD 0]? with | some f => f.used | none => false)
    && (match m.faces[e.f2.getD 0]? with | some f => f.used | none => false)

/-- the mesh steps 5–8 work on -/
def cellMeshOk (c : CellTR R) : Bool :=
  PipelineR.meshOk c.mesh && edgeFacesUsed c.mesh && queueOk c.mesh && usedCovered c.mesh && attrsOk c

/-- the slots the refinement pass of the cell took are those the replay of its log takes -/
def replayOk (fn : Fn R) (K : ConstsTR R) (c : CellTR R) : Bool :=
  let m0 := PipelineR.faceTypes (kR K c.k) c.mesh
  let r := Remesh.refineMesh fn (Gen.refineConsts fn) (PipelineR.lminSq (kR K c.k)) (PipelineR.lmaxSq (kR K c.k)) K.swapOn m0 K.maxIter
  match r.2.1 with
  | .returned => (replayLog c.a m0 r.2.2).2.1 == r.1.freeNodes && (replayLog c.a m0 r.2.2).2.2 == r.1.nodes.size
  | _ => true

/-- the refinement pass of the cell never reads a released slot (`Remesh.refineLive`) -/
def refineLiveCell (fn : Fn R) (K : ConstsTR R) (c : CellTR R) : Bool :=
  Remesh.refineLive fn (Gen.refineConsts fn) (PipelineR.lminSq (kR K c.k)) (PipelineR.lmaxSq (kR K c.k)) K.swapOn
    (PipelineR.faceTypes (kR K c.k) c.mesh) K.maxIter

/-- … for every cell, on the cells `save_mesh` leaves -/
def refineLiveT (fn : Fn R) (K : ConstsTR R) (s : StateTR R) : Bool :=
  match saveMeshT fn K s with
  | .error _ => true
  | .ok s1 => s1.cells.all fun c => refineLiveCell fn K c && replayOk fn K c

/-- every coupling of a used node names a used slot of another existing cell -/
def coupOk (cells : List (CellTR R)) : Bool :=
  cells.all fun c => (List.range c.mesh.nodes.size).all fun i =>
    match c.a.coup.getD i none with
    | some q => !Remesh.usedN c.mesh i || (match cells[q.1]? with | some c2 => Remesh.usedN c2.mesh q.2 | none => false)
    | none => true

/-- 10. the cell is removed at the end of the iteration -/
def belowMinT (c : CellTR R) : Bool := Gen.CellCycle.belowMinVol c.volume c.tvol c.k.minVol

/-- tested on the state in front of the iteration -/
def preOkTR (s : StateTR R) : Bool :=
  s.defined && s.cells.all (fun c => c.k.kind == 0) && !s.cells.any (readyT s.iter) && s.cells.all attrsOk

/-- the domain test, given the verdict of `refineLiveT`, the result of `meshStageT` and — when it returned — the state in front
    of the integration (so that the driver evaluates each once) -/
def stepOkFromT (s : StateTR R) (live : Bool) (ms : Except Remesh.Err (StateTR R))
    (bi : StateTR R → List (CellTR R) × Bool) : Bool :=
  preOkTR s && live &&
  match ms with
  | .error e => e != Remesh.Err.fuel
  | .ok s1 => s1.cells.all cellMeshOk && (bi s1).2 && coupOk (bi s1).1 && !(bi s1).1.any belowMinT

/-- the next `solver::run_iteration` is `tissueIterationR` (an exception of the refiner / of rebase counts: the model reports it) -/
def stepOkTR (fn : Fn R) (fx : FX R) (K : ConstsTR R) (s : StateTR R) : Bool :=
  stepOkFromT s (refineLiveT fn K s) (meshStageT fn K s) (fun s1 => beforeIntegrationR fn fx K.base s1.cells)

/-- … for each of the next n iterations -/
def runOkTR (fn : Fn R) (fx : FX R) (K : ConstsTR R) : Nat → StateTR R → Bool
  | 0, _ => true
  | n + 1, s => stepOkTR fn fx K s &&
    match tissueIterationR fn fx K s with
    | .error _ => true
    | .ok s' => runOkTR fn fx K n s'

/-! ### the tissue placed somewhere else -/

/-- the same cell placed `t` further: the used node slots are shifted (`Remesh.translateCell`), nothing else changes -/
def trCellR (t : V3 R) (c : CellTR R) : CellTR R := { c with mesh := Remesh.translateCell t c.mesh }

def translateTR (t : V3 R) (s : StateTR R) : StateTR R := { s with cells := s.cells.map (trCellR t) }

end Simu.TissueR
