import SimuVerif.Model.TissueP
/-
  C14 — the assembled iteration of a tissue with BOTH population events: the division round at the start of every 5th iteration
  (`cell_divider::run`, /repo/src/triangulation_modules/cell_divider.cpp:9-68) and the removal at the end (Model/TissueP.lean).

  PARTIAL (see notes/C14_population.md §8): the geometric pipeline of `cell_divider::divide_cell` (centroid, longest axis by the
  eigen-solver, intersection points, `divide_faces`, Poisson + Delaunay interface, `create_daughter_cells`, `refine_mesh` ×2,
  `rebase` ×2, `initialize_random_properties`) is NOT composed here: C09's Model/Division.lean models it stage by stage.  What
  `divide_cell` RETURNS — the two daughter cells, complete (node / face slots, edge index, node attributes copied from the mother's
  nodes incl. their couplings, area, volume, halved target volume, pressure) — is an INPUT of the model per successful division
  (`DivEv`), recorded from the real run by harness/h_solver.cpp (mode `dslots`, right after `cell_divider::run`).  Modelled
  statement by statement is everything `cell_divider::run` and `solver::run_iteration` do around it:

    2.  `if(!is_step_tmp() && iteration_ % 5 == 0) cell_divider::run(…)`   (`tmp_step_` is never set: `dividesNow`)
        a. for every cell in list order (1 thread): `is_ready_to_divide()` (epithelial: `volume_ >= division_volume_`, the volume
           stored by the last force phase — `readyD`); a ready cell is handed to `divide_cell`, whose first statement REBASES THE
           MOTHER, whether the division succeeds or not (`rebaseReady`);
        b. on success, in the critical section: mother cleared and recorded for deletion, `daughter_1->cell_id_ = max_cell_id_++`,
           `daughter_2->cell_id_ = max_cell_id_++`, daughters collected;
        c. after the loop: daughters appended to the list in the order of their mothers, mothers removed (`remove_index` of the
           sorted positions), and — only when something divided — the local ids renumbered.
        The daughters carry the mother's cell type (same constants; growth rate / division volume drawn with std 0 = the averages).
    3… the rest of the iteration runs on the NEW list: `update_face_types` + `refine_meshes` (`refineStageT`), contact model,
        polarisation, forces, integrator (`TissueR.physStage`), removal (`TissueP.removalP`).

  The couplings the daughters inherit from the mother's nodes name cells by the local ids of the list BEFORE the round: stale
  until step 5a resets them, exactly as after a removal.

  Core Lean only (compiled into `drv_c14`); polymorphic in the scalar.
-/
namespace Simu.TissueD
open Simu Simu.Forces Simu.Gen Simu.TissueR Simu.TissueP

/-- one successful `divide_cell`: the position of the mother in the list the divider works on, and what it returned -/
structure DivEv (R : Type) where
  pos : Nat
  d1 : CellTR R
  d2 : CellTR R

variable {R : Type} [Add R] [Sub R] [Mul R] [Div R] [Neg R] [Lit R] [LT R] [LE R] [DecidableLT R] [DecidableLE R] [DecidableEq R]

/-- `!is_step_tmp() && iteration_ % 5 == 0` -/
def dividesNow (iter : Nat) : Bool := iter % Gen.CellCycle.divisionPeriod == 0

/-- `is_ready_to_divide()` (overridden by `epithelial_cell` only) -/
def readyD (c : CellTR R) : Bool := c.k.kind == 0 && Gen.CellCycle.readyEpithelial c.volume c.k.divVol

/-- the first statement of `divide_cell`; an exception of `rebase` is caught there (→ no division): outside the domain -/
def rebaseReady (c : CellTR R) : CellTR R :=
  if readyD c then (match rebaseCell c with | .ok c' => c' | .error _ => c) else c

/-- the ids handed out in the critical sections, in the order of the mothers -/
def freshIdents (maxId : Nat) : Nat → List Ident
  | 0 => []
  | n + 1 => ⟨maxId, 0⟩ :: ⟨maxId + 1, 0⟩ :: freshIdents (maxId + 2) n

/-- `cell_divider::run` given the successful divisions of this round -/
def divisionRoundD (s : StateTP R) (ev : List (DivEv R)) : StateTP R :=
  if dividesNow s.base.iter then
    let cs := s.base.cells.map rebaseReady
    let rm := ev.map (·.pos)
    let cells' := Pop.removeIdx (cs ++ ev.flatMap fun e => [e.d1, e.d2]) rm
    let idents' := Pop.removeIdx (s.idents ++ freshIdents s.maxId ev.length) rm
    { base := { s.base with cells := cells' }, idents := if ev.isEmpty then idents' else renumberIdents idents',
      maxId := s.maxId + 2 * ev.length }
  else s

/-- steps 3, 4 on a given list (the second half of `TissueR.meshStageT`) -/
def refineStageT (fn : Fn R) (K : ConstsTR R) (s : StateTR R) : Except Remesh.Err (StateTR R) :=
  (collect (s.cells.map (refineCell fn K))).map fun cs => { s with cells := cs }

/-- steps 1, 2 -/
def afterDividerD (fn : Fn R) (K : ConstsTR R) (s : StateTP R) (ev : List (DivEv R)) : Except Remesh.Err (StateTP R) :=
  (saveMeshT fn K s.base).map fun b1 => divisionRoundD { s with base := b1 } ev

/-- steps 3–11 on the list the divider left -/
def restD (fn : Fn R) (fx : FX R) (K : ConstsTR R) (s2 : StateTP R) : Except Remesh.Err (StateTP R) :=
  (refineStageT fn K s2.base).map fun b3 => removalP { s2 with base := physStage fn fx K b3 }

/-- one `solver::run_iteration` with division round and removal -/
def tissueIterationD (fn : Fn R) (fx : FX R) (K : ConstsTR R) (s : StateTP R) (ev : List (DivEv R)) : Except Remesh.Err (StateTP R) :=
  (afterDividerD fn K s ev).bind (restD fn fx K)

/-- n iterations; `evs` = the successful divisions per iteration -/
def tissueRunD (fn : Fn R) (fx : FX R) (K : ConstsTR R) : List (List (DivEv R)) → StateTP R → Except Remesh.Err (StateTP R)
  | [], s => .ok s
  | ev :: rest, s => (tissueIterationD fn fx K s ev).bind (tissueRunD fn fx K rest)

/-! ### the domain -/

/-- the recorded divisions fit the list: (no division outside a division iteration), positions ascending, in range, of READY cells,
    whose rebase succeeds; daughters with attribute tables as long as their node lists and the mother's constants -/
def evOkD (cells : List (CellTR R)) (iter : Nat) (ev : List (DivEv R)) : Bool :=
  (dividesNow iter || ev.isEmpty) &&
  (ev.map (·.pos)).zipIdx.all (fun p => match (ev.map (·.pos))[p.2 + 1]? with | some q => p.1 < q | none => true) &&
  ev.all (fun e => match cells[e.pos]? with
    | some m => readyD m && attrsOk e.d1 && attrsOk e.d2
    | none => false) &&
  cells.all fun c => !readyD c || !dividesNow iter || (match rebaseCell c with | .ok _ => true | .error _ => false)

def stepOkFromD (s : StateTP R) (ev : List (DivEv R)) (sv : Except Remesh.Err (StateTR R)) (live : StateTP R → Bool)
    (ms : StateTP R → Except Remesh.Err (StateTR R)) (bi : StateTR R → List (CellTR R) × Bool) : Bool :=
  s.base.defined && s.base.cells.all (fun c => c.k.kind == 0) && s.base.cells.all attrsOk && identsOk s && !s.base.cells.isEmpty &&
  match sv with
  | .error e => e != Remesh.Err.fuel
  | .ok b1 =>
    evOkD b1.cells b1.iter ev && live (divisionRoundD { s with base := b1 } ev) &&
    match ms (divisionRoundD { s with base := b1 } ev) with
    | .error e => e != Remesh.Err.fuel
    | .ok b3 => b3.cells.all cellMeshOk && (bi b3).2 && coupOk (bi b3).1

/-- the next `solver::run_iteration` is `tissueIterationD … ev` -/
def stepOkTD (fn : Fn R) (fx : FX R) (K : ConstsTR R) (s : StateTP R) (ev : List (DivEv R)) : Bool :=
  stepOkFromD s ev (saveMeshT fn K s.base) (fun s2 => s2.base.cells.all fun c => refineLiveCell fn K c && replayOk fn K c)
    (fun s2 => refineStageT fn K s2.base) (fun b3 => beforeIntegrationR fn fx K.base b3.cells)

def runOkTD (fn : Fn R) (fx : FX R) (K : ConstsTR R) : List (List (DivEv R)) → StateTP R → Bool
  | [], _ => true
  | ev :: rest, s => stepOkTD fn fx K s ev &&
    match tissueIterationD fn fx K s ev with
    | .error _ => true
    | .ok s' => runOkTD fn fx K rest s'

/-! ### the tissue placed somewhere else -/

def trEvD (t : V3 R) (e : DivEv R) : DivEv R := { e with d1 := trCellR t e.d1, d2 := trCellR t e.d2 }

end Simu.TissueD
