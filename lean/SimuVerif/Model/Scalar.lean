/-
  Scalar interface of the executable models.  Core Lean only (no Mathlib), so that the same
  definitions can be compiled into the `driver` executable at `Float` and reasoned about at an
  arbitrary ordered field in `SimuVerif/Properties`.
-/
namespace Simu

/-- numeric literals of the C++ source: `lit n` is the integer literal `n`, decimal literals are
    emitted by the translator as quotients `lit p / lit q` -/
class Lit (R : Type) where
  lit : Nat → R

export Lit (lit)

/-- functions that are not field operations: they enter every model as an explicit parameter
    pack; the theorems that need a property of them state it as a hypothesis -/
structure Fn (R : Type) where
  sqrt : R → R
  ln   : R → R
  exp  : R → R
  acos : R → R
  floor : R → Int

instance : Lit Float := ⟨fun n => Float.ofNat n⟩

def floatFloorInt (x : Float) : Int :=
  let f := x.floor
  if f ≥ 0 then Int.ofNat f.toUInt64.toNat else - Int.ofNat (-f).toUInt64.toNat

def Fn.float : Fn Float :=
  { sqrt := Float.sqrt, ln := Float.log, exp := Float.exp, acos := Float.acos, floor := floatFloorInt }

end Simu
