-- This module serves as the root of the `SimuVerif` library.
-- Import modules here that should be built as part of the library.
import SimuVerif.Basic
