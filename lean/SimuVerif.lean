-- root of the library: every property module (and through them models, generated files, lemmas)
import SimuVerif.Properties.C05
import SimuVerif.Properties.C20
import SimuVerif.Properties.C18
