-- root of the library: every property module (and through them models, generated files, lemmas)
import SimuVerif.Properties.C05
import SimuVerif.Properties.C20
import SimuVerif.Properties.C18
import SimuVerif.Properties.C03
import SimuVerif.Properties.C12
import SimuVerif.Properties.C01
import SimuVerif.Properties.C11
import SimuVerif.Properties.C10
import SimuVerif.Properties.C02
import SimuVerif.Properties.C15
import SimuVerif.Properties.C14
import SimuVerif.Properties.C04
import SimuVerif.Properties.C08
import SimuVerif.Properties.C19
import SimuVerif.Properties.C06
import SimuVerif.Properties.C07
