import Driver.Proto
import SimuVerif.Model.Division
import SimuVerif.Gen.RemeshConsts
/-
  Model driver for C09: the same request lines as `harness/h_division.cpp`, answered by the executable
  model `Model/Division.lean` (+ `Gen/Division.lean`) at `Float`.  Requests that only the real code can
  answer (Poisson sampling + Delaunay, the end-to-end calls) are answered `opaque`; the run of
  `cell_divider::run` is replayed by `roundm` from the observed outcome of every division attempt.
  After `divfaces` and `daughters` the driver also reports whether the hypotheses of the theorems hold on the
  executed instance (`wf`, `iface`).
-/
open Simu Simu.Remesh Simu.Division Driver

structure St where
  pend : Array (V3 Float) := #[]
  polys : Array (List Nat) := #[]
  cell : Option (Cell Float) := none
  p : V3 Float := ⟨0, 0, 0⟩
  n : V3 Float := ⟨0, 0, 1⟩
  m : Mesh Float := ⟨#[], #[]⟩
  thr : Nat := 0
  fthr : Nat := 0
  tr : V3 Float := ⟨0, 0, 0⟩
  rot : M33 Float := (⟨1, 0, 0⟩, ⟨0, 1, 0⟩, ⟨0, 0, 1⟩)

def fnF : Fn Float := Fn.float
def consts : RefineConsts Float := Gen.refineConsts fnF

def showNodes (l : List (V3 Float)) : String :=
  s!"N {l.length}" ++ String.join (l.map (fun v => s!" ; {showV v}"))

def showFaces (l : List (List Nat)) : String :=
  s!"F {l.length}" ++ String.join (l.map (fun f => " ;" ++ String.join (f.map (fun x => s!" {x}"))))

def natArgs (ws : List String) : Option (List Nat) := ws.mapM String.toNat?

def showOptN (o : Option Nat) : String := match o with | some x => toString x | none => "-"

def dumpEdges (c : Cell Float) : String :=
  s!"E {c.edges.length}" ++ String.join (c.edges.map (fun e =>
    if e.isManifold then s!" ; {e.n1} {e.n2} {showOptN e.f1} {showOptN e.f2}" else s!" ; {e.n1} {e.n2} - -"))

def dumpState (c : Cell Float) : String :=
  let ns := c.nodes.toList.map (fun n => s!" ; {if n.used then 1 else 0} {showV n.pos}")
  let fs := c.faces.toList.map (fun f => if f.used then s!" ; 1 {f.n1} {f.n2} {f.n3}" else " ; 0")
  let fr (l : List Nat) := if l.isEmpty then " " else String.join (l.reverse.map (fun x => s!" {x}"))
  s!"N {c.nodes.size}{String.join ns} | F {c.faces.size}{String.join fs} | FN{fr c.freeNodes} | FF{fr c.freeFaces}"

def dumpDaughter (d : Daughter Float) : String :=
  let ns := d.used.map (fun u => s!" ; {if u then 1 else 0}")
  let fs := d.faces.map (fun t => s!" ; 1 {t.1} {t.2.1} {t.2.2}")
  let fr (l : List Nat) := if l.isEmpty then " " else String.join (l.map (fun x => s!" {x}"))
  s!"N {d.nnodes}{String.join ns} | F {d.faces.length}{String.join fs} | FN{fr d.freeNodes} | FF  | vol6 {showF d.vol6} reoriented {d.reoriented}"

/-- hypothesis of `divide_faces_preserves_surface` on the executed instance: every face has 3 or 5 nodes and in every
    face of size 5 the two intersection points are at cyclic distance 2 (positions differ by 2 or 3) -/
def wf5 (thr : Nat) (faces : List (List Nat)) : Bool :=
  faces.all (fun f =>
    if f.length == 3 then true
    else if f.length == 5 then
      match findIdx thr f 0 with
      | some p1 => (match findIdx thr f (p1 + 1) with
        | some p2 => (p2 - p1 == 2 || p2 - p1 == 3) && (f.filter (· ≥ thr)).length == 2
        | none => false)
      | none => false
    else false)

/-- interface condition of `daughters_closed` on the executed instance: boundary half-edges of D = reversed boundary of M₂,
    as multisets (both sorted) -/
def heKey (e : Surface.HE) : Nat := e.1 * 4294967296 + e.2

/-- unmatched half-edges of `T` with their excess multiplicity, sorted -/
def bdL (T : List Surface.Tri) : List (Surface.HE × Nat) :=
  let h := Surface.he T
  let ds := h.eraseDups.filter (fun e => h.count e > h.count (e.2, e.1))
  ((ds.map (fun e => (e, h.count e - h.count (e.2, e.1)))).toArray.qsort (fun a b => heKey a.1 < heKey b.1)).toList

def ifaceOK (M2 D : List Surface.Tri) : Bool :=
  bdL D == (((bdL M2).map (fun q => ((q.1.2, q.1.1), q.2))).toArray.qsort (fun a b => heKey a.1 < heKey b.1)).toList

def errS (e : DErr) : String := s!"err {e.name}"

def step (st : St) (line : String) : St × String :=
  match line.trimAscii.toString.splitOn " " with
  | ["cell"] => ({}, "ok")
  | "note" :: _ => (st, "ok")
  | ["n", x, y, z] =>
    match parseFs [x, y, z] with
    | some [a, b, c] => ({ st with pend := st.pend.push ⟨a, b, c⟩ }, "ok")
    | _ => (st, "bad-op")
  | "t" :: ids =>
    match natArgs ids with
    | some l => if l.length ≥ 3 then ({ st with polys := st.polys.push l }, "ok") else (st, "bad-op")
    | none => (st, "bad-op")
  | ["init"] =>
    let tris := st.polys.toList.filterMap (fun f => match f with | [a, b, c] => some (a, b, c) | _ => none)
    if tris.length != st.polys.size || tris.isEmpty then (st, "bad-op") else
    match initCell fnF st.pend.toList tris with
    | .ok c => ({ st with cell := some c }, "ok")
    | .error e => (st, s!"err {e.name}")
  | ["edges"] => (st, match st.cell with | some c => dumpEdges c | none => "bad-op")
  | ["state"] => (st, match st.cell with | some c => dumpState c | none => "bad-op")
  | ["rebase"] =>
    match st.cell with
    | some c => (match rebase c with
      | .ok c' => ({ st with cell := some c' }, "ok")
      | .error x => (st, s!"err {x.name}"))
    | none => (st, "bad-op")
  | ["refine", lmin, lmax] =>
    match st.cell, parseFs [lmin, lmax] with
    | some c, some [lmin, lmax] =>
      let (c', out, _) := refineMesh fnF consts (lmin * lmin) (lmax * lmax) false c 1000000
      let o := match out with
        | .returned => "returned" | .threw e => s!"threw {e.name}" | .fuelOut => "fuel"
      ({ st with cell := some c' }, o)
    | _, _ => (st, "bad-op")
  | ["plane", a, b, c, d, e, f] =>
    match parseFs [a, b, c, d, e, f] with
    | some [a, b, c, d, e, f] => ({ st with p := ⟨a, b, c⟩, n := ⟨d, e, f⟩ }, "ok")
    | _ => (st, "bad-op")
  | "mesh" :: rest =>
    let thr := match rest with | [t] => t.toNat?.getD 0 | _ => 0
    ({ st with m := ⟨st.pend, st.polys⟩, thr := thr, fthr := st.polys.size }, "ok")
  | ["addpts"] =>
    match st.cell with
    | none => (st, "bad-op")
    | some c =>
      let thr := c.nodes.size
      match addIntersectionPoints c st.p st.n with
      | .ok m => ({ st with m := m, thr := thr },
          s!"ok thr {thr} | {showNodes (m.nodes.toList.drop thr)} | {showFaces m.faces.toList}")
      | .error e => ({ st with thr := thr }, errS e)
  | ["apf", f, a, b, p] =>
    match natArgs [f, a, b, p] with
    | some [f, a, b, p] =>
      if f ≥ st.m.faces.size then (st, "bad-op") else
      (match addPointToFace st.m f a b p with
       | .ok m => ({ st with m := m }, "ok" ++ String.join ((m.faces.getD f []).map (fun x => s!" {x}")))
       | .error e => (st, errS e))
    | _ => (st, "bad-op")
  | ["divfaces"] =>
    let wf := wf5 st.thr st.m.faces.toList
    match divideFaces st.thr st.m with
    | .ok m => ({ st with m := m, fthr := m.faces.size }, s!"ok {showFaces m.faces.toList} wf {wf}")
    | .error e => (st, errS e)
  | ["coarse"] =>
    let fthr := st.m.faces.size
    match addPolygonAndCoarse st.thr st.m with
    | .ok m => ({ st with m := m, fthr := fthr },
        s!"ok fthr {fthr} | {showNodes (m.nodes.toList.drop st.thr)} | {showFaces m.faces.toList}")
    | .error e => ({ st with fthr := fthr }, errS e)
  | ["coarseonly"] =>
    match coarseTriangulation st.m with
    | .ok m => ({ st with m := m },
        s!"ok fthr {st.fthr} | {showNodes (m.nodes.toList.drop st.thr)} | {showFaces m.faces.toList}")
    | .error e => (st, errS e)
  | ["mapxy"] =>
    let (t, rot, m) := mapToXY fnF st.m st.thr st.n
    ({ st with m := m, tr := t, rot := rot },
      s!"ok {showV t} {showV rot.1} {showV rot.2.1} {showV rot.2.2} | {showNodes (m.nodes.toList.drop st.thr)}")
  | ["tri", _] => (st, "opaque")
  | "setD" :: np :: rest =>
    match np.toNat? with
    | none => (st, "bad-op")
    | some np =>
      match parseFs (rest.take (3 * np)), natArgs (rest.drop (3 * np)) with
      | some fl, some (nt :: ids) =>
        if fl.length != 3 * np || ids.length != 3 * nt then (st, "bad-op") else
        let pts := (List.range np).map (fun i => v3 fl (3 * i))
        let tris := (List.range nt).map (fun i => [ids.getD (3 * i) 0, ids.getD (3 * i + 1) 0, ids.getD (3 * i + 2) 0])
        ({ st with m := setInterface st.m st.thr st.fthr pts tris }, "ok")
      | _, _ => (st, "bad-op")
  | ["mapback"] =>
    let m := mapBack st.m st.thr st.tr st.rot
    ({ st with m := m }, s!"ok {showNodes (m.nodes.toList.drop st.thr)}")
  | ["daughters"] =>
    match st.cell with
    | none => (st, "bad-op")
    | some _ =>
      -- the hypotheses of daughters_closed on this instance
      let hyp := match daughterFaces st.m st.fthr st.p st.n with
        | .ok (T1, T2) =>
          let nD := st.m.faces.size - st.fthr
          let M1 := T1.take (T1.length - nD)
          let M2 := T2.take (T2.length - nD)
          let D := T2.drop (T2.length - nD)
          s!"iface {ifaceOK M2 D} closedM {Surface.closedSimpleB (M1 ++ M2)} closed1 {Surface.closedSimpleB T1} closed2 {Surface.closedSimpleB T2}"
        | .error _ => "iface false closedM false closed1 false closed2 false"
      match createDaughters st.m st.fthr st.p st.n with
      | .ok (d1, d2) => (st, s!"ok D1 {dumpDaughter d1} || D2 {dumpDaughter d2} || {hyp}")
      | .error e => (st, s!"{errS e} || {hyp}")
  | ["side", a, b, c, d, e, f, g, h, i] =>
    match parseFs [a, b, c, d, e, f, g, h, i] with
    | some l => (st, if Gen.Division.faceSide (v3 l 0) (v3 l 3) (v3 l 6) st.p st.n then "1" else "0")
    | none => (st, "bad-op")
  | ["epi", a, b, c, d, e, f] =>
    match parseFs [a, b, c, d, e, f] with
    | some l => (st, match Gen.Division.edgePlaneIntersection (v3 l 0) (v3 l 3) st.p st.n with
        | some q => s!"some {showV q}" | none => "none")
    | none => (st, "bad-op")
  | "roundm" :: ctr :: rest =>
    -- roundm <counter> <k> then k items `<id> <kind> <ready 0|1> <success 0|1> <tv hex>`
    match ctr.toNat?, rest with
    | some ctr, k :: items =>
      match k.toNat? with
      | none => (st, "bad-op")
      | some k =>
        if items.length != 5 * k then (st, "bad-op") else
        let cells : List (PCell Float × Bool) := (List.range k).map (fun i =>
          let g := fun j => items.getD (5 * i + j) ""
          ({ tag := toString i, id := (g 0).toNat?.getD 0, lid := i, kind := (g 1).toNat?.getD 0, ready := g 2 == "1",
             target := (parseF (g 4)).getD 0, surf := [] }, g 3 == "1"))
        let succ := cells.map (·.2)
        let outcome := fun (i : Nat) (_ : PCell Float) => if succ.getD i false then some ([], []) else none
        let (pop, ctr') := runRound outcome (cells.map (·.1)) ctr
        let items := pop.map (fun c => s!" || {if c.tag.startsWith "d" then c.tag else "m" ++ c.tag} id {c.id} lid {c.lid} type {c.kind} tv {showF c.target}")
        (st, s!"ctr {ctr'} n {pop.length}{String.join items}")
    | _, _ => (st, "bad-op")
  | ["centroid"] => (st, "opaque")
  | "axis" :: _ => (st, "opaque")
  | ["axisfree"] => (st, "opaque")
  | "divide" :: _ => (st, "opaque")
  | ["popclear"] => (st, "opaque")
  | ["seed", _] => (st, "opaque")
  | ["popready"] => (st, "opaque")
  | ["poptake", _] => (st, "opaque")
  | "popadd" :: _ => (st, "opaque")
  | "round" :: _ => (st, "opaque")
  | _ => (st, "bad-op")

partial def loop (h : IO.FS.Stream) (out : IO.FS.Stream) (st : St) : IO Unit := do
  let line ← h.getLine
  if line.isEmpty then return ()
  let (st', ans) := step st line
  out.putStrLn ans
  out.flush
  loop h out st'

def main : IO Unit := do
  let out ← IO.getStdout
  loop (← IO.getStdin) out {}
