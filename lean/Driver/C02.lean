import Driver.Proto
import SimuVerif.Model.Forces
/-
  Model driver of C02: same request lines as harness/h_forces.cpp, answers computed with the
  Float instance of the very definitions the theorems of Properties/C02.lean are about.
-/
open Simu Simu.Forces Driver

def dumpForces (n : Nat) (cs : List (Contrib Float)) : String :=
  (accumulate n cs).foldl (fun s v => s ++ " " ++ showV v) ""

def parseFaces : Nat → List String → Option (List Face)
  | 0, [] => some []
  | n + 1, a :: b :: c :: t :: rest => do
    let a ← a.toNat?; let b ← b.toNat?; let c ← c.toNat?; let t ← t.toNat?
    let fs ← parseFaces n rest
    pure (⟨a, b, c, t⟩ :: fs)
  | _, _ => none

def runForces (args : List String) : Option String := do
  let nn ← (← args[0]?).toNat?
  let nf ← (← args[1]?).toNat?
  let nt ← (← args[2]?).toNat?
  let rest := args.drop 3
  let nd := 9 + 2 * nt + 3 * nn
  if rest.length ≠ nd + 4 * nf then none
  let ds ← parseFs (rest.take nd)
  let da := ds.toArray
  let g := fun (i : Nat) => da.getD i 0
  let fts := (List.range nt).map fun t => (⟨g (9 + 2 * t), g (10 + 2 * t)⟩ : FaceType Float)
  let p : Params Float := { K := g 0, maxP := g 1, aem := g 2, iso := g 3, angf := g 4, minVol := g 5,
                            growth := g 6, tvol := g 7, dt := g 8, ft := fts }
  let o := 9 + 2 * nt
  let pos : Array (V3 Float) := (Array.range nn).map fun i => ⟨g (o + 3 * i), g (o + 3 * i + 1), g (o + 3 * i + 2)⟩
  let x := fun (i : Nat) => pos.getD i ⟨0, 0, 0⟩
  let F ← parseFaces nf (rest.drop nd)
  if F.any (fun f => f.a ≥ nn || f.b ≥ nn || f.c ≥ nn || f.ty ≥ nt) then none
  let fx := FX.float
  let pre := prelude fx x F p
  let s := s!"ok 1 {showF pre.pressure} {showF pre.volume} {showF pre.area} {showF pre.targetArea}"
  let s := s ++ dumpForces nn (internalContribs fx x F p)
  let s := s ++ dumpForces nn (pressureContribs fx x F pre.pressure)
  let s := s ++ dumpForces nn (tensionContribs fx x F p pre.area pre.targetArea)
  let s := s ++ dumpForces nn (bendingContribs fx x F p)
  let s := s ++ dumpForces nn (angleContribs fx x F p.angf)
  pure s

def parseSlots : Nat → List String → Option (List Slot)
  | 0, [] => some []
  | n + 1, u :: a :: b :: c :: t :: rest => do
    let u ← u.toNat?; let a ← a.toNat?; let b ← b.toNat?; let c ← c.toNat?; let t ← t.toNat?
    let fs ← parseSlots n rest
    pure (⟨u != 0, ⟨a, b, c, t⟩⟩ :: fs)
  | _, _ => none

def parseEdges : Nat → List String → Option (List EdgeRec)
  | 0, [] => some []
  | n + 1, a :: b :: f :: g :: rest => do
    let a ← a.toNat?; let b ← b.toNat?; let f ← f.toNat?; let g ← g.toNat?
    let es ← parseEdges n rest
    pure (⟨a, b, f, g⟩ :: es)
  | _, _ => none

/-- `slots nn nf ne nt  9 params  nt*(tension bending)  nn*(x y z)  nf*(used a b c type)  ne*(n1 n2 f1 f2)`:
    the live mesh of a refined cell as dumped by the harness -/
def runSlots (args : List String) : Option String := do
  let nn ← (← args[0]?).toNat?
  let nf ← (← args[1]?).toNat?
  let ne ← (← args[2]?).toNat?
  let nt ← (← args[3]?).toNat?
  let rest := args.drop 4
  let nd := 9 + 2 * nt + 3 * nn
  if rest.length ≠ nd + 5 * nf + 4 * ne then none
  let ds ← parseFs (rest.take nd)
  let da := ds.toArray
  let g := fun (i : Nat) => da.getD i 0
  let fts := (List.range nt).map fun t => (⟨g (9 + 2 * t), g (10 + 2 * t)⟩ : FaceType Float)
  let p : Params Float := { K := g 0, maxP := g 1, aem := g 2, iso := g 3, angf := g 4, minVol := g 5,
                            growth := g 6, tvol := g 7, dt := g 8, ft := fts }
  let o := 9 + 2 * nt
  let pos : Array (V3 Float) := (Array.range nn).map fun i => ⟨g (o + 3 * i), g (o + 3 * i + 1), g (o + 3 * i + 2)⟩
  let x := fun (i : Nat) => pos.getD i ⟨0, 0, 0⟩
  let S ← parseSlots nf ((rest.drop nd).take (5 * nf))
  let E ← parseEdges ne (rest.drop (nd + 5 * nf))
  if S.any (fun s => s.used && (s.face.a ≥ nn || s.face.b ≥ nn || s.face.c ≥ nn || s.face.ty ≥ nt)) then none
  if E.any (fun e => e.n1 ≥ nn || e.n2 ≥ nn || e.f1 ≥ nf || e.f2 ≥ nf) then none
  let fx := FX.float
  let F := liveFaces S
  let pre := prelude fx x F p
  let s := s!"ok 1 {showF pre.pressure} {showF pre.volume} {showF pre.area} {showF pre.targetArea}"
  let s := s ++ dumpForces nn (internalContribsSlots fx x S E p)
  let s := s ++ dumpForces nn (pressureContribs fx x F pre.pressure)
  let s := s ++ dumpForces nn (tensionContribs fx x F p pre.area pre.targetArea)
  let s := s ++ dumpForces nn (bendingContribsOf fx x p (E.map (hingeOfEdge S)))
  let s := s ++ dumpForces nn (angleContribs fx x F p.angf)
  pure s

def step (line : String) : String :=
  match (line.trimAscii.toString.splitOn " ").filter (· ≠ "") with
  | "forces" :: args => (runForces args).getD "bad-op"
  | "slots" :: args => (runSlots args).getD "bad-op"
  | _ => "bad-op"

partial def loop (h : IO.FS.Stream) (out : IO.FS.Stream) : IO Unit := do
  let line ← h.getLine
  if line.isEmpty then return ()
  out.putStrLn (step line)
  loop h out

def main : IO Unit := do
  let out ← IO.getStdout
  loop (← IO.getStdin) out
