import Driver.Proto
import SimuVerif.Model.Schedule
/-
  Model driver of C19 (core Lean only): the executable schedule model at `Float`.

  request:  run <T> <dt> <S> <fuel> n0 (id)^n0 K ( nmid (id)^nmid ndead (id)^ndead )^K
            T, dt, S as 16-digit hex doubles; the rest natural numbers: initial cell ids, then for each of the
            first K iterations the OBSERVED cell list after the divider and the OBSERVED removed cells
            (the check always sends the whole observed run, K = number of executed iterations)
  answer:   "it k tb ta fn n ids.."        one line per iteration of the model: iteration, time before / after, file number, cells at the end
            "file k number n ids.."        every pair of mesh files, in writing order
            "stat k t n ids.."             every write_data call, in order
            "end N t fn finished n ids.."  final state (`finished` = 0 when the fuel ran out before the loop condition failed)
            "done"
-/
open Simu Simu.Schedule Driver

def takeIds : Nat → List Nat → Option (List Nat × List Nat)
  | 0, l => some ([], l)
  | k + 1, a :: l => do
    let (as, r) ← takeIds k l
    pure (a :: as, r)
  | _ + 1, [] => none

def takeEvents : Nat → List Nat → Option (List Event × List Nat)
  | 0, l => some ([], l)
  | k + 1, nm :: l => do
    let (mid, r1) ← takeIds nm l
    match r1 with
    | nd :: r2 => do
      let (dead, r3) ← takeIds nd r2
      let (es, r4) ← takeEvents k r3
      pure ({ mid := mid, dead := dead } :: es, r4)
    | [] => none
  | _ + 1, [] => none

def showIds (l : List Nat) : String :=
  l.foldl (fun acc i => acc ++ " " ++ toString i) (toString l.length)

/-- the same loop as `Schedule.loop` (same condition, same `iteration`), keeping one line per iteration -/
def traceLoop (P : Params Float) (hist : Nat → Event) : Nat → St Float → Array String → St Float × Array String
  | 0, s, acc => (s, acc)
  | fuel + 1, s, acc =>
    if Gen.continueRun s.time P.T s.cells.length then
      let s' := iteration Fn.float P (hist s.iter) s
      traceLoop P hist fuel s' (acc.push s!"it {s.iter} {showF s.time} {showF s'.time} {s'.fileNo} {showIds s'.cells}")
    else (s, acc)

def answer (ws : List String) : List String :=
  match ws with
  | t :: dt :: sp :: rest =>
    match parseF t, parseF dt, parseF sp, rest.mapM (fun w => w.toNat?) with
    | some T, some dt, some S, some (fuel :: n0 :: l) =>
      match takeIds n0 l with
      | some (init, k :: l2) =>
        match takeEvents k l2 with
        | some (evs, []) =>
          let arr := evs.toArray
          let hist : Nat → Event := fun i => arr.getD i { mid := [], dead := [] }
          let P : Params Float := { T := T, dt := dt, S := S }
          let r := run Fn.float P init hist fuel
          let (s, lines) := traceLoop P hist fuel (St.init init) #[]
          let same := s.iter == (r.iter) && s.fileNo == r.fileNo && s.cells == r.cells
          let files := r.files.map (fun f => s!"file {f.iter} {f.number} {showIds f.cells}")
          let stats := r.stats.map (fun f => s!"stat {f.iter} {showF f.time} {showIds f.cells}")
          lines.toList ++ files ++ stats ++
            [s!"end {r.iter} {showF r.time} {r.fileNo} {if finished P r && same then 1 else 0} {showIds r.cells}", "done"]
        | _ => ["bad-op", "done"]
      | _ => ["bad-op", "done"]
    | _, _, _, _ => ["bad-op", "done"]
  | _ => ["bad-op", "done"]

def step (line : String) : List String :=
  match (line.trimAscii.toString.splitOn " ").filter (· ≠ "") with
  | "run" :: ws => answer ws
  | _ => ["bad-op", "done"]

partial def mainLoop (h : IO.FS.Stream) (out : IO.FS.Stream) : IO Unit := do
  let line ← h.getLine
  if line.isEmpty then return ()
  for l in step line do out.putStrLn l
  out.flush
  mainLoop h out

def main : IO Unit := do
  let out ← IO.getStdout
  mainLoop (← IO.getStdin) out
