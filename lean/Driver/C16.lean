import Driver.Vtk
/-
  C16 model driver.

    c16 <hex bytes of the real file | -> <ncells> then per cell
        <type id (Int)> <cell id> <#node slots> <#face slots>
        node slots: <used 0/1> <x hex> <y hex> <z hex> <x text> <y text> <z text>    (text = the coordinate as formatted)
        face slots: <used 0/1> <a> <b> <c>
        <#arrays> then the text of every CELL_DATA array for this cell (ignored for cell_id / cell_type_id)

  answer:  W <ok|error> | TOK <same | diff <index> <model token> <real token>> | RT <read of the model tokens>
           | RR <read of the tokenised real file> | RX <character-level read of the real file>
  (the three reads in the dump format of harness/h_vtk.cpp)
-/
open Simu Simu.Vtk Driver Driver.Vtk

/-- scalar of the writer side: the double and its formatted text -/
structure FTok where
  v : Float
  txt : List Char

def fmtTok : Fmt FTok := { fmt := fun x => x.txt, finite := fun x => x.v.isFinite }

def nat? (ws : List String) : Option (Nat × List String) :=
  match ws with
  | w :: r => w.toNat?.map (fun n => (n, r))
  | [] => none

def int? (ws : List String) : Option (Int × List String) :=
  match ws with
  | w :: r => w.toInt?.map (fun n => (n, r))
  | [] => none

def repeatP {α : Type} (p : List String → Option (α × List String)) : Nat → List String → Option (List α × List String)
  | 0, ws => some ([], ws)
  | n + 1, ws => match p ws with
    | none => none
    | some (a, r) => match repeatP p n r with
      | none => none
      | some (as, r') => some (a :: as, r')

def nodeP (ws : List String) : Option (NodeSlot FTok × List String) :=
  match ws with
  | u :: hx :: hy :: hz :: tx :: ty :: tz :: r =>
    match parseF hx, parseF hy, parseF hz with
    | some x, some y, some z => some (⟨⟨x, tx.toList⟩, ⟨y, ty.toList⟩, ⟨z, tz.toList⟩, u == "1"⟩, r)
    | _, _, _ => none
  | _ => none

def faceP (ws : List String) : Option (FaceSlot × List String) :=
  match ws with
  | u :: a :: b :: c :: r =>
    match a.toNat?, b.toNat?, c.toNat? with
    | some a, some b, some c => some (⟨a, b, c, u == "1"⟩, r)
    | _, _, _ => none
  | _ => none

def cellP (ws : List String) : Option (Cell FTok × List String) := do
  let (ty, r) ← int? ws
  let (id, r) ← nat? r
  let (nn, r) ← nat? r
  let (nf, r) ← nat? r
  let (nodes, r) ← repeatP nodeP nn r
  let (faces, r) ← repeatP faceP nf r
  let (na, r) ← nat? r
  let (ex, r) ← repeatP (fun ws => match ws with | w :: r => some (w.toList, r) | [] => none) na r
  pure ({ nodes := nodes, faces := faces, id := id, typeId := ty, extra := fun k => ex.getD k [] }, r)

def firstDiff : Nat → List Token → List Token → Option (Nat × String × String)
  | _, [], [] => none
  | i, a :: as, b :: bs => if a == b then firstDiff (i + 1) as bs else some (i, showTok a, showTok b)
  | i, a :: _, [] => some (i, showTok a, "end")
  | i, [], b :: _ => some (i, "end", showTok b)

def step (line : String) : String :=
  match line.trimAscii.toString.splitOn " " with
  | "c16" :: hex :: rest =>
    match nat? rest with
    | none => "bad-op"
    | some (nc, r) =>
      match repeatP cellP nc r with
      | none => "bad-op"
      | some (pop, _) =>
        let bytes := unhexBytes hex
        let real := tokenize bytes
        let rr := "RR " ++ dumpResult (read floatSem real)
        let rx := "RX " ++ dumpResult (readText floatSem bytes)
        match writeCells fmtTok pop with
        | .error e => s!"W {reprStr e} | TOK - | RT - | {rr} | {rx}"
        | .ok toks =>
          let tk := match firstDiff 0 toks real with
            | none => "same"
            | some (i, a, b) => s!"diff {i} {a} {b}"
          s!"W ok | TOK {tk} | RT {dumpResult (read floatSem toks)} | {rr} | {rx}"
  | "tokens" :: hex :: _ =>
    (tokenize (unhexBytes hex)).foldl (fun acc t => acc ++ " " ++ showTok t) "tokens"
  | _ => "bad-op"

partial def loop (h : IO.FS.Stream) (out : IO.FS.Stream) : IO Unit := do
  let line ← h.getLine
  if line.isEmpty then return ()
  out.putStrLn (step line)
  loop h out

def main : IO Unit := do
  let out ← IO.getStdout
  loop (← IO.getStdin) out
