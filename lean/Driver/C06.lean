import Driver.Proto
import SimuVerif.Model.BroadPhase
/-
  Model driver of C06 (`drv_c06`): one request per input line, one answer per output line.
    tissue …  (the request line of harness/h_contact.cpp)  ->  the broad-phase structures of `Model/BroadPhase.lean`
              at `Float`: boxes, global box, grid dimensions, voxel contents, node voxels, presented pairs
-/
open Simu Simu.Gen Simu.BP Driver

abbrev P := StateT Nat (ReaderT (Array String) Option)

def tok : P String := do
  let i ← get
  let a ← read
  if h : i < a.size then
    set (i + 1)
    pure a[i]
  else failure

def pNat : P Nat := do
  let s ← tok
  match s.toNat? with
  | some n => pure n
  | none => failure

def pF : P Float := do
  let s ← tok
  match parseF s with
  | some x => pure x
  | none => failure

def pV : P (V3 Float) := do
  let x ← pF; let y ← pF; let z ← pF
  pure ⟨x, y, z⟩

def rep {α : Type} (n : Nat) (p : P α) : P (List α) := do
  let mut out : Array α := #[]
  for _ in [0:n] do
    out := out.push (← p)
  pure out.toList

structure CellIn where
  type : Nat
  id : Nat
  pts : Array (V3 Float)
  faces : List (Nat × Nat × Nat)

def pCell : P CellIn := do
  let t ← pNat; let id ← pNat
  let _mc ← pF
  let nft ← pNat
  let _ ← rep (2 * nft) pF
  let nn ← pNat; let nf ← pNat
  let pts ← rep nn pV
  let faces ← rep nf (do let a ← pNat; let b ← pNat; let c ← pNat; let _t ← pNat; pure (a, b, c))
  pure { type := t, id := id, pts := pts.toArray, faces := faces }

structure TissueIn where
  lmin : Float
  cadh : Float
  crep : Float
  cells : List CellIn

def pTissue : P TissueIn := do
  let _threads ← pNat; let _prep ← pNat
  let lmin ← pF; let cadh ← pF; let crep ← pF
  let _ ← rep 4 pF
  let _mp ← pNat
  let nc ← pNat
  let cells ← rep nc pCell
  pure { lmin := lmin, cadh := cadh, crep := crep, cells := cells }

def z3 : V3 Float := ⟨0, 0, 0⟩
def inf : Float := 1.0 / 0.0

def showBox (b : Box Float) : String :=
  s!"{showF b.lox} {showF b.loy} {showF b.loz} {showF b.hix} {showF b.hiy} {showF b.hiz}"

def joinWith (sep : String) (l : List String) : String := sep.intercalate l

def tissueAnswer (t : TissueIn) : String :=
  let fn := Fn.float
  let pad := bpPadding t.cadh t.crep
  let vs := bpVoxelSize t.lmin pad
  let faces : List (BFace Float) := t.cells.flatMap fun c =>
    c.faces.map fun (a, b, cc) => ⟨c.id, c.pts.getD a z3, c.pts.getD b z3, c.pts.getD cc z3⟩
  let owners : List Nat := (t.cells.zipIdx.flatMap fun (c, i) => c.faces.map fun _ => i)
  let nodes : List (BNode Float) := t.cells.flatMap fun c => c.pts.toList.map fun p => ⟨c.id, p⟩
  let rs := faceRecs pad faces
  let gb := globalBox pad inf rs
  -- what update_face_aabbs leaves in global_min/max (before the grid shifts its origin)
  let g := dims fn gridDeltaFloat vs pad inf rs
  let grid := buildGrid fn g rs
  let boxes := joinWith " " (rs.map fun r => showBox r.box)
  let nonempty := (grid.zipIdx.filter fun (l, _) => !l.isEmpty)
  let content := joinWith " " (nonempty.map fun (l, i) => s!"{i}:" ++ joinWith "," (l.map toString))
  let vox := joinWith " " (nodes.map fun n => let v := nodeVoxel fn g n.pos; s!"{v.1},{v.2.1},{v.2.2}")
  let pres := joinWith " " (nodes.map fun n =>
    let c := candidates fn g grid rs n
    if c.isEmpty then "-" else joinWith "," (c.map toString))
  s!"ok B {rs.length} {boxes} G {showBox gb} D {g.nx} {g.ny} {g.nz} {g.total} {showF g.min_x} {showF g.min_y} {showF g.min_z} {showF g.v} {showF pad} O " ++
    joinWith " " (owners.map toString) ++ s!" C {nonempty.length} {content} V {vox} P {pres}"

def step (line : String) : String :=
  let ws := (line.trimAscii.toString.splitOn " ").filter (· ≠ "")
  match ws with
  | "tissue" :: rest | "pairs" :: rest =>
    match (pTissue.run 0).run rest.toArray with
    | some (t, _) => tissueAnswer t
    | none => "bad-op"
  | _ => "bad-op"

partial def loop (h : IO.FS.Stream) (out : IO.FS.Stream) : IO Unit := do
  let line ← h.getLine
  if line.isEmpty then return ()
  out.putStrLn (step line)
  loop h out

def main : IO Unit := do
  let out ← IO.getStdout
  loop (← IO.getStdin) out
