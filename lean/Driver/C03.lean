import Driver.Proto
import SimuVerif.Model.Integrator
import SimuVerif.Model.CouplingPass
/-
  Model driver of C03: replays the request lines of harness/h_integrator.cpp with the `Float` instance of
  `Simu.Integ.stepN` (the very definitions the theorems of Properties/C03 are about).

  request:  integ CM DM threads dt damping nsteps ncells
               { localId kind density volume nnodes { used px py pz mx my mz fx fy fz k { c n }*k }*nnodes }*ncells
  answer:   ok time { px py pz mx my mz fx fy fz }*      |  bad-op

  request:  pass MODE ncells { nnodes { used coup px py pz }*nnodes }*ncells       (harness/h_couplingpass.cpp)
               coup = `-` (nullopt) or `c:n`; MODE (how the harness reaches the two loops) is ignored here
  answer:   ok { used coup px py pz }*    |  undefined  (a used node's coupling names no slot: UB in the C++)  |  bad-op
            = `Simu.Coupling.pass` (loop (A) symmetrisation then loop (B) midpoints) at `Float`
-/
open Simu Simu.Integ Driver

abbrev P := StateT (List String) Option

def tok : P String := do
  match (← get) with
  | [] => failure
  | t :: r => set r; pure t

def nat : P Nat := do
  let t ← tok
  match t.toNat? with
  | some n => pure n
  | none => failure

def flt : P Float := do
  let t ← tok
  match parseF t with
  | some x => pure x
  | none => failure

def vec : P (V3 Float) := do
  let x ← flt; let y ← flt; let z ← flt
  pure ⟨x, y, z⟩

def rep {α : Type} (p : P α) : Nat → P (List α)
  | 0 => pure []
  | n + 1 => do
    let a ← p
    let r ← rep p n
    pure (a :: r)

def pNode : P (NodeT × Dyn Float) := do
  let u ← nat
  let pos ← vec; let mom ← vec; let frc ← vec
  let k ← nat
  let cp ← rep (do let c ← nat; let n ← nat; pure (c, n)) k
  pure ({ used := u != 0, coup := cp }, { pos := pos, mom := mom, force := frc })

def pCell : P (CellT Float × List (Dyn Float)) := do
  let lid ← nat; let kind ← nat
  let rho ← flt; let vol ← flt
  let nn ← nat
  if nn < 1 ∨ nn > 64 then failure
  let ns ← rep pNode nn
  pure ({ localId := lid, kind := kind, density := rho, volume := vol, nodes := ns.map (·.1) }, ns.map (·.2))

def cmOf : Nat → Option CM
  | 0 => some .springs | 1 => some .nodeNode | 2 => some .faceFace | _ => none
def dmOf : Nat → Option DM
  | 0 => some .semiImplicit | 1 => some .overdamped | _ => none

def pRequest : P String := do
  let cm ← nat; let dm ← nat; let _threads ← nat
  let dt ← flt; let damping ← flt
  let nsteps ← nat; let ncells ← nat
  let cs ← rep pCell ncells
  if !(← get).isEmpty then failure
  match cmOf cm, dmOf dm with
  | some cm, some dm =>
    let topo := cs.map (·.1)
    let s0 : State Float := { time := 0.0, dyn := cs.map (·.2) }
    let s := stepN cm dm topo dt damping nsteps s0
    let body := s.dyn.foldl (fun acc l => l.foldl (fun acc x => acc ++ s!" {showV x.pos} {showV x.mom} {showV x.force}") acc) ""
    pure s!"ok {showF s.time}{body}"
  | _, _ => failure

/-! ### `pass`: the tail of `resolve_all_contacts` (Model/CouplingPass.lean) -/

def pCoup : P (Option Coupling.Slot) := do
  let t ← tok
  if t == "-" then pure none else
  match t.splitOn ":" with
  | [a, b] =>
    match a.toNat?, b.toNat? with
    | some c, some n => pure (some (c, n))
    | _, _ => failure
  | _ => failure

def pCNode : P (Coupling.CNode Float) := do
  let u ← nat
  let cp ← pCoup
  let pos ← vec
  pure { used := u != 0, coup := cp, pos := pos }

def pCCell : P (List (Coupling.CNode Float)) := do
  let nn ← nat
  if nn < 1 ∨ nn > 64 then failure
  rep pCNode nn

def showCoup : Option Coupling.Slot → String
  | none => "-"
  | some (c, n) => s!"{c}:{n}"

def pPass : P String := do
  let _mode ← tok
  let ncells ← nat
  if ncells > 64 then failure
  let cs ← rep pCCell ncells
  if !(← get).isEmpty then failure
  match Coupling.pass cs with
  | none => pure "undefined"
  | some r =>
    let body := r.foldl (fun acc l => l.foldl (fun acc (x : Coupling.CNode Float) =>
      acc ++ s!" {if x.used then 1 else 0} {showCoup x.coup} {showV x.pos}") acc) ""
    pure s!"ok{body}"

def stepLine (line : String) : String :=
  match (line.trimAscii.toString.splitOn " ").filter (· ≠ "") with
  | "integ" :: args =>
    match pRequest.run args with
    | some (r, _) => r
    | none => "bad-op"
  | "pass" :: args =>
    match pPass.run args with
    | some (r, _) => r
    | none => "bad-op"
  | _ => "bad-op"

partial def loop (h : IO.FS.Stream) (out : IO.FS.Stream) : IO Unit := do
  let line ← h.getLine
  if line.isEmpty then return ()
  out.putStrLn (stepLine line)
  loop h out

def main : IO Unit := do
  let out ← IO.getStdout
  loop (← IO.getStdin) out
