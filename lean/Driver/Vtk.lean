import Driver.Proto
import SimuVerif.Model.VtkText
/-
  Shared by the C16 and C17 model drivers: bytes travel as hex, results are dumped in exactly the
  format of harness/h_vtk.cpp / harness/h_startup.cpp.
-/
namespace Driver.Vtk
open Simu Simu.Vtk Driver

/-- hex text → one `Char` per byte ("-" is the empty text) -/
def unhexBytes (s : String) : List Char :=
  if s == "-" then [] else
  let rec go : List Char → List Char
    | a :: b :: t => Char.ofNat (((hexDigit a).getD 0) * 16 + (hexDigit b).getD 0) :: go t
    | _ => []
  go s.toList

def str (l : List Char) : String := String.ofList l

/-- the harness prints the first 60 characters of `what()` with every non-alphanumeric as `_` -/
def clean (l : List Char) : String :=
  str ((l.take 60).map (fun c => if c.isAlphanum then c else '_'))

def dumpMeshes (ms : List (Mesh Float)) (tys : List Int) : String :=
  let t := tys.foldl (fun acc t => acc ++ " " ++ toString t) s!"types {tys.length}"
  ms.foldl (fun acc m =>
    let a := m.pos.foldl (fun acc x => acc ++ " " ++ showF x) (acc ++ s!" nodes {m.pos.length}")
    m.faces.foldl (fun acc f => f.foldl (fun acc i => acc ++ " " ++ toString i) (acc ++ s!" {f.length}")) (a ++ s!" faces {m.faces.length}"))
    (t ++ s!" cells {ms.length}")

def errName (e : Err) : String := (reprStr e).replace "Simu.Vtk.Err." ""

/-- `exc <C++ type> <cleaned message prefix>` as the harness reports it -/
def dumpErr (e : Err) : String :=
  match e.site with
  | some i => match Simu.Gen.Vtk.readerThrows[i]? with
    | some (_, msg) => s!"exc mesh_reader_exception {clean msg}"
    | none => s!"exc mesh_reader_exception ?site{i}"
  | none => match e with
    | .stodInvalid => "exc std::invalid_argument stod"
    | .stodRange => "exc std::out_of_range stod"
    | .stoiRange => "exc std::out_of_range stoi"
    | _ => "exc ?"

def dumpResult (r : Except Err (List (Mesh Float) × List Int)) : String :=
  match r with
  | .ok (ms, tys) => "ok " ++ dumpMeshes ms tys
  | .error e => dumpErr e ++ " " ++ errName e

def showTok : Token → String
  | .word w => "w:" ++ str w
  | .int n => "i:" ++ toString n
  | .num s => "n:" ++ str s
  | .nl => "nl"

end Driver.Vtk
