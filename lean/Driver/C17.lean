import Driver.Vtk
/-
  C17 model driver.  `reader <hex bytes>`: the character-level reader model on the bytes of a mesh
  file, answer in the format of harness/h_startup.cpp (`ok <dump>` / `exc <type> <message prefix> <Err>`),
  followed by ` | init <verdict>` for the start-up cross checks with `<nTypes> <triangulate>` given as
  the 3rd and 4th word (optional).
-/
open Simu Simu.Vtk Driver Driver.Vtk

def step (line : String) : String :=
  match line.trimAscii.toString.splitOn " " with
  | "reader" :: hex :: rest =>
    let r := readText floatSem (unhexBytes hex)
    let base := dumpResult r
    match rest, r with
    | [nt, tri], .ok (ms, tys) =>
      let v := initChecks (nt.toNat?.getD 0) (tri == "1") ms tys
      base ++ " | init " ++ (if v == InitVerdict.mustThrow then "mustThrow" else "unknown")
    | _, _ => base
  | _ => "bad-op"

partial def loop (h : IO.FS.Stream) (out : IO.FS.Stream) : IO Unit := do
  let line ← h.getLine
  if line.isEmpty then return ()
  out.putStrLn (step line)
  loop h out

def main : IO Unit := do
  let out ← IO.getStdout
  loop (← IO.getStdin) out
