import Driver.Proto
import SimuVerif.Model.Grid
/-
  C20 model driver.  One scenario per line:
    grid <3|4> <min_x min_y min_z max_x max_y max_z voxel_size> <n> <3n coordinates> <m> <3m coordinates>
  (doubles as 16-digit hex bit patterns).  Objects are the integers 0..n-1, placed in order at the n
  points; then the m query points are asked for their neighbourhood.  Answer (same text as harness/h_grid.cpp):
    nb nx ny nz total c <min corner, max corner> | i <i,j,k per point> | v <voxel content per point> |
    n <neighbourhood per query> | a <grid content>
  A point whose index is outside the grid is not placed / queried ("oob"): the real code would write
  outside its vector.
-/
open Simu Driver Simu.Grid

def showL (l : List Nat) : String := "[" ++ ",".intercalate (l.map toString) ++ "]"

def pts (l : List Float) : List (V3 Float) :=
  match l with
  | x :: y :: z :: rest => ⟨x, y, z⟩ :: pts rest
  | _ => []

def inRange (d : Dims Float) (ix : Nat × Nat × Nat) : Bool := ix.1 < d.nx && ix.2.1 < d.ny && ix.2.2 < d.nz

def header (d : Dims Float) (len : Nat) : String :=
  s!"nb {d.nx} {d.ny} {d.nz} {len} c {showF d.min_x} {showF d.min_y} {showF d.min_z} {showF d.max_x} {showF d.max_y} {showF d.max_z}"

def showIx (ix : Nat × Nat × Nat) : String := s!"{ix.1},{ix.2.1},{ix.2.2}"

def run4 (b : List Float) (ps qs : List (V3 Float)) : String :=
  let fn := Fn.float
  let g0 : G4 Float Nat := G4.create fn Gen.deltaFloat4 (b.getD 6 0) (b.getD 0 0) (b.getD 1 0) (b.getD 2 0) (b.getD 3 0) (b.getD 4 0) (b.getD 5 0)
  let d := g0.dims
  let ix := ps.map fun p => Gen.voxelIndex fn d p.x p.y p.z
  let g := (ps.zipIdx).foldl (fun g (p, k) => if inRange d (Gen.voxelIndex fn d p.x p.y p.z) then g.place fn k p else g) g0
  let vs := ix.map fun i => if inRange d i then showL (g.content i.1 i.2.1 i.2.2) else "oob"
  let ns := qs.map fun q => if inRange d (Gen.voxelIndex fn d q.x q.y q.z) then showL (g.nbh fn q) else "oob"
  s!"{header d g0.vox.length} | i {" ".intercalate (ix.map showIx)} | v {" ".intercalate vs} | n {" ".intercalate ns} | a {showL g.all}"

def run3 (b : List Float) (ps qs : List (V3 Float)) : String :=
  let fn := Fn.float
  let g0 : G3 Float Nat := G3.create fn Gen.deltaFloat3 (b.getD 6 0) (b.getD 0 0) (b.getD 1 0) (b.getD 2 0) (b.getD 3 0) (b.getD 4 0) (b.getD 5 0)
  let d := g0.dims
  let ix := ps.map fun p => Gen.voxelIndex fn d p.x p.y p.z
  let g := (ps.zipIdx).foldl (fun g (p, k) => if inRange d (Gen.voxelIndex fn d p.x p.y p.z) then g.place fn k p else g) g0
  let vs := ix.map fun i => if inRange d i then showL (g.content i.1 i.2.1 i.2.2).toList else "oob"
  let ns := qs.map fun q => if inRange d (Gen.voxelIndex fn d q.x q.y q.z) then showL (g.nbh fn q) else "oob"
  s!"{header d g0.vox.length} | i {" ".intercalate (ix.map showIx)} | v {" ".intercalate vs} | n {" ".intercalate ns} | a {showL g.all}"

def step (line : String) : String :=
  match line.trimAscii.toString.splitOn " " with
  | "grid" :: kind :: rest =>
    match parseFs (rest.take 7), (rest.drop 7) with
    | some b, ns :: rest2 =>
      match ns.toNat? with
      | none => "bad-op"
      | some n =>
        match parseFs (rest2.take (3 * n)), rest2.drop (3 * n) with
        | some pl, ms :: rest3 =>
          match ms.toNat?, parseFs rest3 with
          | some m, some ql =>
            if b.length ≠ 7 ∨ pl.length ≠ 3 * n ∨ ql.length ≠ 3 * m then "bad-op" else
            if kind = "4" then run4 b (pts pl) (pts ql)
            else if kind = "3" then run3 b (pts pl) (pts ql)
            else "bad-op"
          | _, _ => "bad-op"
        | _, _ => "bad-op"
    | _, _ => "bad-op"
  | _ => "bad-op"

partial def loop (h : IO.FS.Stream) (out : IO.FS.Stream) : IO Unit := do
  let line ← h.getLine
  if line.isEmpty then return ()
  out.putStrLn (step line)
  loop h out

def main : IO Unit := do
  let out ← IO.getStdout
  loop (← IO.getStdin) out
