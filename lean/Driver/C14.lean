import Driver.Proto
import SimuVerif.Model.Pipeline
import SimuVerif.Model.Tissue
import SimuVerif.Model.PipelineR
import SimuVerif.Model.TissueR
import SimuVerif.Model.TissueP
import SimuVerif.Model.TissueD
import SimuVerif.Model.TissueD2
import SimuVerif.Model.DaughtersOkCheck
/-
  Model driver of C14 (assembled iteration of a single free cell): runs `Pipeline.cellIteration` at `Float`, i.e. the
  very definition the theorems of Properties/C14Pipeline.lean are about, from an initial state taken from the first
  snapshot of harness/h_solver.cpp, and prints the state in the snapshot format of that harness.

  request (one line, blank separated; doubles as 16 hex digits):
    run <n> <every> <nn> <nf> <nt> <epithelial 0|1>
        K maxP aem iso angf minVol growth divVol density dt damping lmin        (12 doubles)
        nt × (surface_tension bending_modulus)
        <iteration> time area volume target_volume pressure                     (Nat, 5 doubles)
        nn × (x y z)   nn × (px py pz)   nf × (n1 n2 n3 type)
  answer: for k = 0 … n
    D <iteration> <stepOk 0|1>            (before the iteration is run; not printed for k = n)
    and when k % every = 0 or k = n, the lines of h_solver:
    S <iteration> <time> 1
    C 0 0 <type 0> <nn> <nf> <area> <volume> <target volume> <pressure>
    P … / M … / T …
  then END (or `bad-op`).

  Assembled iteration of a TISSUE (`Tissue.tissueIteration`, Properties/C14Tissue.lean); the initial state is the first
  snapshot of `h_solver … tissue`:
    tissue <n> <every> <ncells>  dt damping lmin cutAdh cutRep  <iteration> time
        per cell: <kind> <nn> <nf> <nt>  K maxP aem iso angf minVol growth divVol density maxCurv
                  nt × (surface_tension bending_modulus repulsion_strength)   area volume target_volume pressure
                  nn × (x y z)  nn × (px py pz)  nn × (fx fy fz)  nn × (nx ny nz)  nn × curvature  nn × (cell node | - -)
                  nn × closest²  nf × (n1 n2 n3 type)  nf × (nx ny nz area)
  answer: H wf <0|1>  H setup <0|1>   (the decidable hypotheses of the theorems on this instance: `cellWf` of every cell;
          0 ≤ delta, 0 < padding, 0 < voxel size), then for k = 0 … n
    O <iteration> <preOk of the state ∧ postOk of its successor 0|1>     (= `stepOk`; not printed for k = n)
    and when k % every = 0 or k = n the lines of `h_solver … tissue`: S, and per cell C P M T N V Q D F A
  then END (or `bad-op`).

  Assembled iteration of a single free cell WITH remeshing (`PipelineR.cellIterationR`, Properties/C14Remesh.lean); the initial
  state is the first snapshot of `h_solver … slots`:
    runr <n> <every> <epithelial 0|1> <swap 0|1> <nt>
         K maxP aem iso angf minVol growth divVol density dt damping lmin samplingPeriod      (13 doubles)
         nt × (surface_tension bending_modulus)
         <iteration> <file_number> time area volume target_volume pressure
         N <nn> ; <used> x y z px py pz … | F <nf> ; 1 n1 n2 n3 type nx ny nz area (or ; 0) … | E <ne> ; n1 n2 f1 f2 … | FN … | FF …
  answer: for k = 0 … n, when k % every = 0 or k = n the lines `S`, `J <file_number>`, `C`, `R <state in the format above>`, and
  for k < n one line
    D <iteration> <stepOkR 0|1> <refineLive 0|1> <meshOk of the refined mesh 0|1> <splits> <collapses> <rebased 0|1> <swaps>
  (what the model does in that iteration); an exception of the refiner / of rebase ends the answer with `X <kind>`; then END.

  Assembled iteration of a TISSUE WITH remeshing (`TissueR.tissueIterationR`, Properties/C14TissueR.lean); the initial state is the
  first snapshot of `h_solver … tslots`:
    tissuer <n> <every> <ncells> <swap 0|1>  dt damping lmin cutAdh cutRep samplingPeriod  <iteration> <file_number> time
        per cell: <kind> <nt>  K maxP aem iso angf minVol growth divVol density maxCurv
                  nt × (surface_tension bending_modulus repulsion_strength)   area volume target_volume pressure
                  N <nn> ; … | F … | E … | FN … | FF … |        (the `R` line of mode `slots`, closed by a bar)
                  nn × (fx fy fz  nx ny nz  curvature  cell node | - -  closest²)        (the `B` line of mode `tslots`)
  answer: H setup <0|1>, then for k = 0 … n, when k % every = 0 or k = n the lines `S`, `J`, and per cell `C`, `R`, `B` of
  `h_solver … tslots`, and for k < n one line
    O <iteration> <stepOkTR 0|1> <refineLive ∧ replayOk 0|1> <cellMeshOk of all refined cells 0|1> <splits> <collapses> <rebased 0|1> <swaps>
      <coupled used nodes after the contact phase> <used nodes with a contact force>
  an exception of the refiner / of rebase ends the answer with `X <kind>`; then END.

  Assembled iteration of a TISSUE WITH remeshing AND removal of the cells below their minimum volume (`TissueP.tissueIterationP`,
  Properties/C14Population.lean); the initial state is the first snapshot of `h_solver … pslots`:
    tissuep <n> <every> <ncells> <swap 0|1>  dt damping lmin cutAdh cutRep samplingPeriod  <iteration> <file_number> <max_cell_id> time
        per cell: <cell id> <local id> then as for `tissuer`
  answer: H setup <0|1>, then for k = 0 … n, when k % every = 0 or k = n the lines `S`, `J`, `I <max_cell_id>`, and per cell
  `C <cell id> <local id> …`, `R`, `B` of `h_solver … pslots`, and for k < n one line
    O <iteration> <stepOkTP 0|1> <refineLive ∧ replayOk 0|1> <cellMeshOk of all refined cells 0|1> <splits> <collapses> <rebased 0|1> <swaps>
      <coupled used nodes after the contact phase> <used nodes with a closest distance> <cells removed>
      <used nodes of survivors whose coupling names a removed cell> <… names a cell whose position changed> ; <removed positions>
  an exception ends the answer with `X <kind>`; an empty list ends the run; then END.
  Assembled iteration of a TISSUE with remeshing, DIVISION ROUND (daughters recorded) and removal (`TissueD.tissueIterationD`,
  Properties/C14Division.lean); the initial state is the first snapshot of `h_solver … dslots`:
    tissued  … exactly as `tissuep` …  DSN <k>   then k records of the `DS` blocks of the harness:
        DS <iteration> <nids> <cell ids of the list the divider left> <nfresh>  nfresh × (<cell id> area volume target_volume pressure
            N … | F … | E … | FN … | FF … |  nn × attributes)            (the cells with an id ≥ the previous `max_cell_id_`)
  answer: as `tissuep`; in an iteration with a record the list the model's division round leaves is printed as the harness prints it:
  `DS <iteration>`, `J`, `I`, per cell `C`, `R`, `B`, `DE`; the `O` line is
    O <iteration> <stepOkTD 0|1> <ready cells> <divisions> <cells removed> <splits> <collapses> <rebased 0|1>
-/
open Simu Simu.Forces Simu.Pipeline Driver

def parseFacesT : Nat → List String → Option (List Face)
  | 0, [] => some []
  | n + 1, a :: b :: c :: t :: rest => do
    let a ← a.toNat?; let b ← b.toNat?; let c ← c.toNat?; let t ← t.toNat?
    let fs ← parseFacesT n rest
    pure (⟨a, b, c, t⟩ :: fs)
  | _, _ => none

def showSlots (t : Slots (V3 Float)) : String :=
  t.arr.foldl (fun s v => s ++ " " ++ showV v) ""

def showState (s : State Float) : List String :=
  [s!"S {s.iter} {showF s.time} 1",
   s!"C 0 0 0 {s.nn} {s.faces.length} {showF s.area} {showF s.volume} {showF s.tvol} {showF s.pressure}",
   "P" ++ showSlots s.pos,
   "M" ++ showSlots s.mom,
   "T" ++ s.faces.foldl (fun acc f => acc ++ s!" {f.a} {f.b} {f.c} {f.ty}") ""]

def simulate (out : IO.FS.Stream) (c : Consts Float) (n every : Nat) (s0 : State Float) : IO Unit := do
  let fx := FX.float
  let mut s := s0
  for k in [0:n+1] do
    if k % every == 0 || k == n then
      for l in showState s do out.putStrLn l
    if k < n then
      out.putStrLn s!"D {s.iter} {if stepOk fx c s then 1 else 0}"
      s := cellIteration fx c s
  out.putStrLn "END"

def parseRun (args : List String) : Option (Consts Float × Nat × Nat × State Float) := do
  let n ← (← args[0]?).toNat?
  let every ← (← args[1]?).toNat?
  let nn ← (← args[2]?).toNat?
  let nf ← (← args[3]?).toNat?
  let nt ← (← args[4]?).toNat?
  let epi ← (← args[5]?).toNat?
  if every == 0 then none
  let rest := args.drop 6
  let nc := 12 + 2 * nt
  if rest.length ≠ nc + 1 + 5 + 6 * nn + 4 * nf then none
  let cs ← parseFs (rest.take nc)
  let ca := cs.toArray
  let g := fun (i : Nat) => ca.getD i 0
  let fts := (List.range nt).map fun t => (⟨g (12 + 2 * t), g (13 + 2 * t)⟩ : FaceType Float)
  let c : Consts Float :=
    { K := g 0, maxP := g 1, aem := g 2, iso := g 3, angf := g 4, minVol := g 5, growth := g 6, divVol := g 7,
      density := g 8, dt := g 9, damping := g 10, lmin := g 11, ft := fts, epithelial := epi != 0 }
  let rest := rest.drop nc
  let it ← (← rest[0]?).toNat?
  let ds ← parseFs ((rest.drop 1).take (5 + 6 * nn))
  let da := ds.toArray
  let h := fun (i : Nat) => da.getD i 0
  let vec := fun (o i : Nat) => (⟨h (o + 3 * i), h (o + 3 * i + 1), h (o + 3 * i + 2)⟩ : V3 Float)
  let pos : Array (V3 Float) := (Array.range nn).map (vec 5)
  let mom : Array (V3 Float) := (Array.range nn).map (vec (5 + 3 * nn))
  let F ← parseFacesT nf (rest.drop (1 + 5 + 6 * nn))
  if F.any (fun f => f.a ≥ nn || f.b ≥ nn || f.c ≥ nn || f.ty ≥ nt) then none
  let zero : Nat → V3 Float := fun _ => ⟨0, 0, 0⟩
  let s : State Float :=
    { iter := it, time := h 0, pos := ⟨pos, zero⟩, mom := ⟨mom, zero⟩, faces := F,
      area := h 1, volume := h 2, tvol := h 3, pressure := h 4 }
  pure (c, n, every, s)

/-! ### tissue -/
namespace TissueDrv
open Simu.Tissue

abbrev P := StateT Nat (ReaderT (Array String) Option)

def tok : P String := do
  let i ← get
  let a ← read
  if h : i < a.size then
    set (i + 1)
    pure a[i]
  else failure

def pNat : P Nat := do
  match (← tok).toNat? with
  | some n => pure n
  | none => failure

def pF : P Float := do
  match parseF (← tok) with
  | some x => pure x
  | none => failure

def pV : P (V3 Float) := do
  let x ← pF; let y ← pF; let z ← pF
  pure ⟨x, y, z⟩

def pMany {α : Type} (n : Nat) (p : P α) : P (Array α) := do
  let mut a : Array α := Array.mkEmpty n
  for _ in [0:n] do
    a := a.push (← p)
  pure a

def pCoup : P (Option (Nat × Nat)) := do
  let a ← tok; let b ← tok
  if a == "-" then pure none else
  match a.toNat?, b.toNat? with
  | some x, some y => pure (some (x, y))
  | _, _ => failure

def pCell : P (Cell Float) := do
  let kind ← pNat; let nn ← pNat; let nf ← pNat; let nt ← pNat
  let K ← pF; let maxP ← pF; let aem ← pF; let iso ← pF; let angf ← pF; let minVol ← pF; let growth ← pF
  let divVol ← pF; let density ← pF; let maxCurv ← pF
  let fts ← pMany nt (do let t ← pF; let b ← pF; let r ← pF; pure (t, b, r))
  let area ← pF; let volume ← pF; let tvol ← pF; let pressure ← pF
  let pos ← pMany nn pV; let mom ← pMany nn pV; let force ← pMany nn pV; let normal ← pMany nn pV
  let curv ← pMany nn pF; let coup ← pMany nn pCoup; let sqd ← pMany nn pF
  let faces ← pMany nf (do let a ← pNat; let b ← pNat; let c ← pNat; let t ← pNat; pure (⟨a, b, c, t⟩ : Face))
  let fgeom ← pMany nf (do let v ← pV; let a ← pF; pure (v, a))
  if faces.any (fun f => f.a ≥ nn || f.b ≥ nn || f.c ≥ nn || f.ty ≥ nt) then failure
  let k : CellK Float :=
    { kind := kind, K := K, maxP := maxP, aem := aem, iso := iso, angf := angf, minVol := minVol, growth := growth,
      divVol := divVol, density := density, maxCurv := maxCurv,
      ft := fts.toList.map (fun t => ⟨t.1, t.2.1⟩), rep := fts.toList.map (fun t => t.2.2) }
  pure { k := k, pos := ⟨pos, fun _ => ⟨0, 0, 0⟩⟩, mom := mom, force := force, normal := normal, curv := curv, coup := coup,
         sqd := sqd, faces := faces.toList, fgeom := fgeom, area := area, volume := volume, tvol := tvol, pressure := pressure }

def dblMax : Float := Float.ofBits 0x7FEFFFFFFFFFFFFF
def dblInf : Float := Float.ofBits 0x7FF0000000000000
def piF : Float := Float.ofBits 0x400921FB54442D18
def cosDeg (d : Nat) : Float := Float.cos (Float.ofNat d * piF / 180.0)

def pTissue : P (Tissue.Consts Float × Nat × Nat × Tissue.State Float) := do
  let n ← pNat; let every ← pNat; let nc ← pNat
  if every == 0 then failure
  let dt ← pF; let damping ← pF; let lmin ← pF; let cutAdh ← pF; let cutRep ← pF
  let it ← pNat; let time ← pF
  let cells ← pMany nc pCell
  let i ← get
  if i ≠ (← read).size then failure
  let K : Tissue.Consts Float :=
    { dt := dt, damping := damping, lmin := lmin, cutAdh := cutAdh, cutRep := cutRep,
      dotAdh := cosDeg Gen.dotAdhDeg1, dotRep := cosDeg Gen.dotRepDeg1, big := dblMax, inf := dblInf, delta := Gen.gridDeltaFloat }
  pure (K, n, every, { iter := it, time := time, cells := cells.toList, defined := true })

def showArr {α : Type} (a : Array α) (f : α → String) : String := a.foldl (fun s v => s ++ " " ++ f v) ""

def showCell (ci : Nat) (c : Cell Float) : List String :=
  [s!"C {ci} {ci} {c.k.kind} {c.nn} {c.faces.length} {showF c.area} {showF c.volume} {showF c.tvol} {showF c.pressure}",
   "P" ++ showArr c.pos.arr showV,
   "M" ++ showArr c.mom showV,
   "T" ++ c.faces.foldl (fun acc f => acc ++ s!" {f.a} {f.b} {f.c} {f.ty}") "",
   "N" ++ showArr c.normal showV,
   "V" ++ showArr c.curv showF,
   "Q" ++ showArr c.coup (fun q => match q with | some (a, b) => s!"{a} {b}" | none => "- -"),
   "D" ++ showArr c.sqd showF,
   "F" ++ showArr c.force showV,
   "A" ++ showArr c.fgeom (fun g => s!"{showV g.1} {showF g.2}")]

def showTissue (s : Tissue.State Float) : List String :=
  s!"S {s.iter} {showF s.time} {s.cells.length}" :: (s.cells.zipIdx.flatMap fun ci => showCell ci.2 ci.1)

def simulate (out : IO.FS.Stream) (K : Tissue.Consts Float) (n every : Nat) (s0 : Tissue.State Float) : IO Unit := do
  let fn := Fn.float
  let fx := FX.float
  let P := cparams K
  out.putStrLn s!"H wf {if s0.cells.all cellWf then 1 else 0}"
  out.putStrLn s!"H setup {if 0.0 ≤ K.delta && 0.0 < P.padding && 0.0 < P.voxel then 1 else 0}"
  let mut s := s0
  for k in [0:n+1] do
    if k % every == 0 || k == n then
      for l in showTissue s do out.putStrLn l
    if k < n then
      let s' := tissueIteration fn fx K s
      out.putStrLn s!"O {s.iter} {if preOk K s && postOk s' then 1 else 0}"
      s := s'
  out.putStrLn "END"

end TissueDrv

/-! ### single cell with remeshing -/
namespace RemeshDrv
open Simu.Remesh Simu.PipelineR TissueDrv

def pOptNat : P (Option Nat) := do
  let a ← tok
  if a == "-" then pure none else
  match a.toNat? with
  | some x => pure (some x)
  | none => failure

def expect (w : String) : P Unit := do
  if (← tok) == w then pure () else failure

def pNode : P (Node Float) := do
  expect ";"
  let u ← pNat; let p ← pV; let m ← pV
  pure ⟨p, m, u != 0⟩

def pFaceSlot : P (Remesh.Face Float) := do
  expect ";"
  let u ← pNat
  if u == 0 then pure ⟨0, 0, 0, 0, ⟨0, 0, 0⟩, 0, false⟩ else
  let a ← pNat; let b ← pNat; let c ← pNat; let t ← pNat; let nrm ← pV; let ar ← pF
  pure ⟨a, b, c, t, nrm, ar, true⟩

def pEdge : P Edge := do
  expect ";"
  let a ← pNat; let b ← pNat; let f1 ← pOptNat; let f2 ← pOptNat
  pure ⟨a, b, f1, f2⟩

/-- natural numbers up to the next `|` (or the end of the request) -/
partial def pNatsUntilBar (acc : List Nat) : P (List Nat) := do
  let i ← get
  let a ← read
  if h : i < a.size then
    if a[i] == "|" then pure acc.reverse else
    match a[i].toNat? with
    | some x => do set (i + 1); pNatsUntilBar (x :: acc)
    | none => failure
  else pure acc.reverse

def pCellR : P (Remesh.Cell Float) := do
  expect "N"; let nn ← pNat; let nodes ← pMany nn pNode
  expect "|"; expect "F"; let nf ← pNat; let faces ← pMany nf pFaceSlot
  expect "|"; expect "E"; let ne ← pNat; let edges ← pMany ne pEdge
  expect "|"; expect "FN"; let fnq ← pNatsUntilBar []
  expect "|"; expect "FF"; let ffq ← pNatsUntilBar []
  -- the queues are vectors used as stacks: the head of the model list is back()
  pure ⟨nodes, faces, edges.toList, fnq.reverse, ffq.reverse⟩

def pRunR : P (ConstsR Float × Nat × Nat × StateR Float) := do
  let n ← pNat; let every ← pNat; let epi ← pNat; let sw ← pNat; let nt ← pNat
  if every == 0 then failure
  let K ← pF; let maxP ← pF; let aem ← pF; let iso ← pF; let angf ← pF; let minVol ← pF; let growth ← pF
  let divVol ← pF; let density ← pF; let dt ← pF; let damping ← pF; let lmin ← pF; let sp ← pF
  let fts ← pMany nt (do let t ← pF; let b ← pF; pure (⟨t, b⟩ : FaceType Float))
  let it ← pNat; let fileNo ← pNat; let time ← pF; let area ← pF; let vol ← pF; let tvol ← pF; let pr ← pF
  let cell ← pCellR
  let i ← get
  if i ≠ (← read).size then failure
  let base : Pipeline.Consts Float :=
    { K := K, maxP := maxP, aem := aem, iso := iso, angf := angf, minVol := minVol, growth := growth, divVol := divVol,
      density := density, dt := dt, damping := damping, lmin := lmin, ft := fts.toList, epithelial := epi != 0 }
  pure ({ base := base, samplingPeriod := sp, swapOn := sw != 0, maxIter := 1000000 }, n, every,
        { iter := it, time := time, fileNo := Int.ofNat fileNo, cell := cell, area := area, volume := vol, tvol := tvol, pressure := pr })

def showOpt (o : Option Nat) : String := match o with | some x => toString x | none => "-"

/-- the format of `cell_tester::dump_slots` (harness/h_solver.cpp) = `dump` of Driver/C01.lean -/
def dumpCell (c : Remesh.Cell Float) : String :=
  let ns := c.nodes.toList.map (fun n => s!"{if n.used then 1 else 0} {showV n.pos} {showV n.mom}")
  let fs := c.faces.toList.map (fun f =>
    if f.used then s!"1 {f.n1} {f.n2} {f.n3} {f.typ} {showV f.normal} {showF f.area}" else "0")
  let es := c.edges.map (fun e => s!"{e.n1} {e.n2} {showOpt e.f1} {showOpt e.f2}")
  let fr (l : List Nat) := " ".intercalate (l.reverse.map toString)
  s!"N {ns.length} ; {" ; ".intercalate ns} | F {fs.length} ; {" ; ".intercalate fs} | E {es.length} ; {" ; ".intercalate es} | FN {fr c.freeNodes} | FF {fr c.freeFaces}"

def showStateR (s : StateR Float) : List String :=
  [s!"S {s.iter} {showF s.time} 1",
   s!"J {s.fileNo}",
   s!"C 0 0 0 {s.cell.nodes.size} {s.cell.faces.size} {showF s.area} {showF s.volume} {showF s.tvol} {showF s.pressure}",
   "R " ++ dumpCell s.cell]

def b01 (b : Bool) : Nat := if b then 1 else 0

def simulate (out : IO.FS.Stream) (K : ConstsR Float) (n every : Nat) (s0 : StateR Float) : IO Unit := do
  let fn := Fn.float
  let fx := FX.float
  let mut s := s0
  let mut stop := false
  for k in [0:n+1] do
    if stop then break
    if k % every == 0 || k == n then
      for l in showStateR s do out.putStrLn l
    if k < n then
      -- `meshStage`, `refineLiveR` and the log are evaluated once each; `stepOkR` / `cellIterationR` are, by definition,
      -- `stepOkFrom … live ms` and `ms.map (forceStage fx K)`
      let live := refineLiveR fn K s
      let ms := meshStage fn K s
      let ok := stepOkFrom fx K s live ms
      let (rebased, c0?) : Bool × Option (Remesh.Cell Float) :=
        match saveMesh fn K s with
        | .ok s1 => (s1.fileNo != s.fileNo, some (faceTypes K s1.cell))
        | .error _ => (false, none)
      let log : List (Bool × Nat × Nat × Float) := match c0? with | some c0 => refineLog fn K c0 | none => []
      let mOk := match ms with | .ok s1 => meshOk s1.cell | .error _ => false
      let ns := (log.filter (fun e => e.1)).length
      -- executed swaps of the swap pass: every swap rewrites two face slots
      let swaps : Nat :=
        if K.swapOn then
          match c0? with
          | some c0 =>
            match removeElongated fn (Gen.refineConsts fn) c0 with
            | .ok c1 => ((List.range c0.faces.size).filter (fun i =>
                match c0.faces[i]?, c1.faces[i]? with
                | some f, some g => f.n1 != g.n1 || f.n2 != g.n2 || f.n3 != g.n3
                | _, _ => false)).length / 2
            | .error _ => 0
          | none => 0
        else 0
      out.putStrLn s!"D {s.iter} {b01 ok} {b01 live} {b01 mOk} {ns} {log.length - ns} {b01 rebased} {swaps}"
      match ms.map (forceStage fx K) with
      | .ok s' => s := s'
      | .error e =>
        out.putStrLn s!"X {e.name}"
        stop := true
  out.putStrLn "END"

end RemeshDrv

/-! ### tissue with remeshing -/
namespace TissueRDrv
open Simu.Remesh Simu.TissueR TissueDrv RemeshDrv

def pAttr : P (V3 Float × V3 Float × Float × Option (Nat × Nat) × Float) := do
  let f ← pV; let n ← pV; let c ← pF; let q ← pCoup; let d ← pF
  pure (f, n, c, q, d)

def pCellTR : P (CellTR Float) := do
  let kind ← pNat; let nt ← pNat
  let K ← pF; let maxP ← pF; let aem ← pF; let iso ← pF; let angf ← pF; let minVol ← pF; let growth ← pF
  let divVol ← pF; let density ← pF; let maxCurv ← pF
  let fts ← pMany nt (do let t ← pF; let b ← pF; let r ← pF; pure (t, b, r))
  let area ← pF; let volume ← pF; let tvol ← pF; let pressure ← pF
  let mesh ← pCellR
  expect "|"
  let att ← pMany mesh.nodes.size pAttr
  let k : Tissue.CellK Float :=
    { kind := kind, K := K, maxP := maxP, aem := aem, iso := iso, angf := angf, minVol := minVol, growth := growth,
      divVol := divVol, density := density, maxCurv := maxCurv,
      ft := fts.toList.map (fun t => ⟨t.1, t.2.1⟩), rep := fts.toList.map (fun t => t.2.2) }
  pure { k := k, mesh := mesh,
         a := ⟨att.map (·.1), att.map (·.2.1), att.map (·.2.2.1), att.map (·.2.2.2.1), att.map (·.2.2.2.2)⟩,
         area := area, volume := volume, tvol := tvol, pressure := pressure }

def pTissueR : P (ConstsTR Float × Nat × Nat × StateTR Float) := do
  let n ← pNat; let every ← pNat; let nc ← pNat; let sw ← pNat
  if every == 0 then failure
  let dt ← pF; let damping ← pF; let lmin ← pF; let cutAdh ← pF; let cutRep ← pF; let sp ← pF
  let it ← pNat; let fileNo ← pNat; let time ← pF
  let cells ← pMany nc pCellTR
  let i ← get
  if i ≠ (← read).size then failure
  let K : Tissue.Consts Float :=
    { dt := dt, damping := damping, lmin := lmin, cutAdh := cutAdh, cutRep := cutRep,
      dotAdh := cosDeg Gen.dotAdhDeg1, dotRep := cosDeg Gen.dotRepDeg1, big := dblMax, inf := dblInf, delta := Gen.gridDeltaFloat }
  pure ({ base := K, samplingPeriod := sp, swapOn := sw != 0, maxIter := 1000000 }, n, every,
        { iter := it, time := time, fileNo := Int.ofNat fileNo, cells := cells.toList, defined := true })

def showAttrs (c : CellTR Float) : String :=
  (List.range c.mesh.nodes.size).foldl (fun s i =>
    s ++ " " ++ showV (c.a.force.getD i ⟨0, 0, 0⟩) ++ " " ++ showV (c.a.normal.getD i ⟨0, 0, 0⟩) ++ " " ++ showF (c.a.curv.getD i 0)
      ++ " " ++ (match c.a.coup.getD i none with | some (a, b) => s!"{a} {b}" | none => "- -") ++ " " ++ showF (c.a.sqd.getD i 0)) "B"

def showCellTR (ci : Nat) (c : CellTR Float) : List String :=
  [s!"C {ci} {ci} {c.k.kind} {c.mesh.nodes.size} {c.mesh.faces.size} {showF c.area} {showF c.volume} {showF c.tvol} {showF c.pressure}",
   "R " ++ dumpCell c.mesh,
   showAttrs c]

def showStateTR (s : StateTR Float) : List String :=
  [s!"S {s.iter} {showF s.time} {s.cells.length}", s!"J {s.fileNo}"] ++ (s.cells.zipIdx.flatMap fun ci => showCellTR ci.2 ci.1)

def countSwaps (fn : Fn Float) (c0 : Remesh.Cell Float) : Nat :=
  match removeElongated fn (Gen.refineConsts fn) c0 with
  | .ok c1 => ((List.range c0.faces.size).filter (fun i =>
      match c0.faces[i]?, c1.faces[i]? with
      | some f, some g => f.n1 != g.n1 || f.n2 != g.n2 || f.n3 != g.n3
      | _, _ => false)).length / 2
  | .error _ => 0

def simulate (out : IO.FS.Stream) (K : ConstsTR Float) (n every : Nat) (s0 : StateTR Float) : IO Unit := do
  let fn := Fn.float
  let fx := FX.float
  let P := Tissue.cparams K.base
  out.putStrLn s!"H setup {if 0.0 ≤ K.base.delta && 0.0 < P.padding && 0.0 < P.voxel then 1 else 0}"
  let mut s := s0
  let mut stop := false
  for k in [0:n+1] do
    if stop then break
    if k % every == 0 || k == n then
      for l in showStateTR s do out.putStrLn l
    if k < n then
      -- `refineLiveT`, `meshStageT`, `beforeIntegrationR` are evaluated once each; `stepOkTR` / `tissueIterationR` are, by
      -- definition, `stepOkFromT s live ms bi` and `ms.map (fun s1 => physFrom K s1 (bi s1))`
      let live := refineLiveT fn K s
      let ms := meshStageT fn K s
      let bi : Option (List (CellTR Float) × Bool) :=
        match ms with
        | .ok s1 => some (beforeIntegrationR fn fx K.base s1.cells)
        | .error _ => none
      let ok := stepOkFromT s live ms (fun _ => bi.getD ([], false))
      let sv := saveMeshT fn K s
      let rebased := match sv with | .ok s1 => s1.fileNo != s.fileNo | .error _ => false
      let cs0 : List (CellTR Float) := match sv with | .ok s1 => s1.cells | .error _ => []
      let logs := cs0.map fun c => PipelineR.refineLog fn (kR K c.k) (PipelineR.faceTypes (kR K c.k) c.mesh)
      let ns := (logs.map fun l => (l.filter (fun e => e.1)).length).foldl (· + ·) 0
      let nm := (logs.map fun l => (l.filter (fun e => !e.1)).length).foldl (· + ·) 0
      let swaps := if K.swapOn then (cs0.map fun c => countSwaps fn (PipelineR.faceTypes (kR K c.k) c.mesh)).foldl (· + ·) 0 else 0
      let mOk := match ms with | .ok s1 => s1.cells.all cellMeshOk | .error _ => false
      let ncoup := match bi with
        | some r => (r.1.map fun (c : CellTR Float) => ((List.range c.mesh.nodes.size).filter fun i => usedN c.mesh i && (c.a.coup.getD i none).isSome).length).foldl (· + ·) 0
        | none => 0
      -- contact forces: the forces in front of `apply_internal_forces` are not kept; count the couplings and report the
      -- nodes whose closest distance was written instead
      let nsq := match bi with
        | some r => (r.1.map fun (c : CellTR Float) => ((List.range c.mesh.nodes.size).filter fun i => usedN c.mesh i && c.a.sqd.getD i 0 != dblMax).length).foldl (· + ·) 0
        | none => 0
      out.putStrLn s!"O {s.iter} {b01 ok} {b01 live} {b01 mOk} {ns} {nm} {b01 rebased} {swaps} {ncoup} {nsq}"
      match ms, bi with
      | .ok s1, some r => s := physFrom K s1 r
      | .error e, _ =>
        out.putStrLn s!"X {e.name}"
        stop := true
      | _, _ => stop := true
  out.putStrLn "END"

end TissueRDrv

/-! ### tissue with remeshing and removal -/
namespace TissuePDrv
open Simu.Remesh Simu.TissueR Simu.TissueP TissueDrv RemeshDrv TissueRDrv

def pTissueP : P (ConstsTR Float × Nat × Nat × StateTP Float) := do
  let n ← pNat; let every ← pNat; let nc ← pNat; let sw ← pNat
  if every == 0 then failure
  let dt ← pF; let damping ← pF; let lmin ← pF; let cutAdh ← pF; let cutRep ← pF; let sp ← pF
  let it ← pNat; let fileNo ← pNat; let maxId ← pNat; let time ← pF
  let cells ← pMany nc (do let id ← pNat; let lid ← pNat; let c ← pCellTR; pure ((⟨id, lid⟩ : Ident), c))
  let i ← get
  if i ≠ (← read).size then failure
  let K : Tissue.Consts Float :=
    { dt := dt, damping := damping, lmin := lmin, cutAdh := cutAdh, cutRep := cutRep,
      dotAdh := cosDeg Gen.dotAdhDeg1, dotRep := cosDeg Gen.dotRepDeg1, big := dblMax, inf := dblInf, delta := Gen.gridDeltaFloat }
  pure ({ base := K, samplingPeriod := sp, swapOn := sw != 0, maxIter := 1000000 }, n, every,
        { base := { iter := it, time := time, fileNo := Int.ofNat fileNo, cells := (cells.toList.map (·.2)), defined := true },
          idents := cells.toList.map (·.1), maxId := maxId })

def showCellTP (d : Ident) (c : CellTR Float) : List String :=
  [s!"C {d.cellId} {d.localId} {c.k.kind} {c.mesh.nodes.size} {c.mesh.faces.size} {showF c.area} {showF c.volume} {showF c.tvol} {showF c.pressure}",
   "R " ++ dumpCell c.mesh,
   showAttrs c]

def showStateTP (s : StateTP Float) : List String :=
  [s!"S {s.base.iter} {showF s.base.time} {s.base.cells.length}", s!"J {s.base.fileNo}", s!"I {s.maxId}"]
    ++ ((s.base.cells.zip s.idents).flatMap fun cd => showCellTP cd.2 cd.1)

def simulate (out : IO.FS.Stream) (K : ConstsTR Float) (n every : Nat) (s0 : StateTP Float) : IO Unit := do
  let fn := Fn.float
  let fx := FX.float
  let P := Tissue.cparams K.base
  out.putStrLn s!"H setup {if 0.0 ≤ K.base.delta && 0.0 < P.padding && 0.0 < P.voxel then 1 else 0}"
  out.putStrLn s!"H endPhases {if endPhases == [Pop.Phase.stats, Pop.Phase.remove, Pop.Phase.renumber] then 1 else 0}"
  let mut s := s0
  let mut stop := false
  for k in [0:n+1] do
    if stop then break
    if k % every == 0 || k == n then
      for l in showStateTP s do out.putStrLn l
    if s.base.cells.isEmpty then break
    if k < n then
      -- as in `tissuer`: `stepOkTP` / `tissueIterationP` are, by definition, `stepOkFromP s live ms bi` and
      -- `ms.map (fun s1 => removalP { s with base := physFrom K s1 (bi s1) })`
      let live := refineLiveT fn K s.base
      let ms := meshStageT fn K s.base
      let bi : Option (List (CellTR Float) × Bool) :=
        match ms with
        | .ok s1 => some (beforeIntegrationR fn fx K.base s1.cells)
        | .error _ => none
      let ok := stepOkFromP s live ms (fun _ => bi.getD ([], false))
      let sv := saveMeshT fn K s.base
      let rebased := match sv with | .ok s1 => s1.fileNo != s.base.fileNo | .error _ => false
      let cs0 : List (CellTR Float) := match sv with | .ok s1 => s1.cells | .error _ => []
      let logs := cs0.map fun c => PipelineR.refineLog fn (kR K c.k) (PipelineR.faceTypes (kR K c.k) c.mesh)
      let ns := (logs.map fun l => (l.filter (fun e => e.1)).length).foldl (· + ·) 0
      let nm := (logs.map fun l => (l.filter (fun e => !e.1)).length).foldl (· + ·) 0
      let swaps := if K.swapOn then (cs0.map fun c => countSwaps fn (PipelineR.faceTypes (kR K c.k) c.mesh)).foldl (· + ·) 0 else 0
      let mOk := match ms with | .ok s1 => s1.cells.all cellMeshOk | .error _ => false
      let ncoup := match bi with
        | some r => (r.1.map fun (c : CellTR Float) => ((List.range c.mesh.nodes.size).filter fun i => usedN c.mesh i && (c.a.coup.getD i none).isSome).length).foldl (· + ·) 0
        | none => 0
      let nsq := match bi with
        | some r => (r.1.map fun (c : CellTR Float) => ((List.range c.mesh.nodes.size).filter fun i => usedN c.mesh i && c.a.sqd.getD i 0 != dblMax).length).foldl (· + ·) 0
        | none => 0
      match ms, bi with
      | .ok s1, some r =>
        let b := physFrom K s1 r
        let rm := removedPositions b.cells
        let s' := removalP { s with base := b }
        -- stale couplings the survivors carry into the next iteration
        let first := rm.headD b.cells.length
        let cnt (p : Nat → Bool) : Nat := (s'.base.cells.map fun (c : CellTR Float) => ((List.range c.mesh.nodes.size).filter fun i =>
            usedN c.mesh i && (match c.a.coup.getD i none with | some q => p q.1 | none => false)).length).foldl (· + ·) 0
        let toRemoved := cnt fun q => rm.contains q
        let toMoved := cnt fun q => !rm.contains q && q > first
        out.putStrLn s!"O {s.base.iter} {b01 ok} {b01 live} {b01 mOk} {ns} {nm} {b01 rebased} {swaps} {ncoup} {nsq} {rm.length} {toRemoved} {toMoved} ;{rm.foldl (fun a i => a ++ s!" {i}") ""}"
        s := s'
      | .error e, _ =>
        out.putStrLn s!"O {s.base.iter} {b01 ok} {b01 live} {b01 mOk} {ns} {nm} {b01 rebased} {swaps} {ncoup} {nsq} 0 0 0 ;"
        out.putStrLn s!"X {e.name}"
        stop := true
      | _, _ => stop := true
  out.putStrLn "END"

end TissuePDrv

/-! ### tissue with remeshing, division round (recorded daughters) and removal -/
namespace TissueDDrv
open Simu.Remesh Simu.TissueR Simu.TissueP Simu.TissueD TissueDrv RemeshDrv TissueRDrv TissuePDrv

structure Fresh where
  id : Nat
  area : Float
  volume : Float
  tvol : Float
  pressure : Float
  mesh : Remesh.Cell Float
  a : Attrs Float

structure DSRec where
  iter : Nat
  ids : List Nat
  fresh : List Fresh

def pFresh : P Fresh := do
  let id ← pNat; let area ← pF; let volume ← pF; let tvol ← pF; let pressure ← pF
  let mesh ← pCellR
  expect "|"
  let att ← pMany mesh.nodes.size pAttr
  pure ⟨id, area, volume, tvol, pressure, mesh, ⟨att.map (·.1), att.map (·.2.1), att.map (·.2.2.1), att.map (·.2.2.2.1), att.map (·.2.2.2.2)⟩⟩

def pDS : P DSRec := do
  expect "DS"
  let it ← pNat; let nids ← pNat; let ids ← pMany nids pNat; let nf ← pNat; let fr ← pMany nf pFresh
  pure ⟨it, ids.toList, fr.toList⟩

def pTissueD : P (ConstsTR Float × Nat × Nat × StateTP Float × List DSRec) := do
  let n ← pNat; let every ← pNat; let nc ← pNat; let sw ← pNat
  if every == 0 then failure
  let dt ← pF; let damping ← pF; let lmin ← pF; let cutAdh ← pF; let cutRep ← pF; let sp ← pF
  let it ← pNat; let fileNo ← pNat; let maxId ← pNat; let time ← pF
  let cells ← pMany nc (do let id ← pNat; let lid ← pNat; let c ← pCellTR; pure ((⟨id, lid⟩ : Ident), c))
  expect "DSN"
  let k ← pNat
  let recs ← pMany k pDS
  let i ← get
  if i ≠ (← read).size then failure
  let K : Tissue.Consts Float :=
    { dt := dt, damping := damping, lmin := lmin, cutAdh := cutAdh, cutRep := cutRep,
      dotAdh := cosDeg Gen.dotAdhDeg1, dotRep := cosDeg Gen.dotRepDeg1, big := dblMax, inf := dblInf, delta := Gen.gridDeltaFloat }
  pure ({ base := K, samplingPeriod := sp, swapOn := sw != 0, maxIter := 1000000 }, n, every,
        { base := { iter := it, time := time, fileNo := Int.ofNat fileNo, cells := (cells.toList.map (·.2)), defined := true },
          idents := cells.toList.map (·.1), maxId := maxId }, recs.toList)

/-- the successful divisions of the round from the record: the mothers are the cells of the list (after `save_mesh`) whose id is not in
    the list the divider left, in list order; the j-th one gets the fresh cells with the ids `maxId + 2j`, `maxId + 2j + 1` -/
def eventsOf (s : StateTP Float) (cells : List (CellTR Float)) (r : DSRec) : Option (List (DivEv Float)) :=
  let gone := ((cells.zip s.idents).zipIdx.filter fun p => !r.ids.contains p.1.2.cellId)
  let find (id : Nat) (m : CellTR Float) : Option (CellTR Float) :=
    (r.fresh.find? fun f => f.id == id).map fun f =>
      { k := m.k, mesh := f.mesh, a := f.a, area := f.area, volume := f.volume, tvol := f.tvol, pressure := f.pressure }
  gone.zipIdx.mapM fun (p, j) => do
    let d1 ← find (s.maxId + 2 * j) p.1.1
    let d2 ← find (s.maxId + 2 * j + 1) p.1.1
    pure (⟨p.2, d1, d2⟩ : DivEv Float)

def simulate (out : IO.FS.Stream) (K : ConstsTR Float) (n every : Nat) (s0 : StateTP Float) (recs : List DSRec) : IO Unit := do
  let fn := Fn.float
  let fx := FX.float
  let P := Tissue.cparams K.base
  out.putStrLn s!"H setup {if 0.0 ≤ K.base.delta && 0.0 < P.padding && 0.0 < P.voxel then 1 else 0}"
  out.putStrLn s!"H endPhases {if endPhases == [Pop.Phase.stats, Pop.Phase.remove, Pop.Phase.renumber] then 1 else 0}"
  let mut s := s0
  let mut stop := false
  for k in [0:n+1] do
    if stop then break
    if k % every == 0 || k == n then
      for l in showStateTP s do out.putStrLn l
    if s.base.cells.isEmpty then break
    if k < n then
      let sv := saveMeshT fn K s.base
      match sv with
      | .error e =>
        out.putStrLn s!"X {e.name}"
        stop := true
      | .ok b1 =>
        let rebased := b1.fileNo != s.base.fileNo
        let nready := if dividesNow b1.iter then (b1.cells.filter readyD).length else 0
        let rec? := recs.find? fun r => r.iter == b1.iter
        let ev? : Option (List (DivEv Float)) := match rec? with | some r => eventsOf s b1.cells r | none => some []
        match ev? with
        | none =>
          out.putStrLn s!"X bad-record"
          stop := true
        | some ev =>
          let s2 := divisionRoundD { s with base := b1 } ev
          if rec?.isSome then
            out.putStrLn s!"DS {b1.iter}"
            for l in (showStateTP s2).drop 1 do out.putStrLn l
            out.putStrLn "DE"
          let live := s2.base.cells.all fun c => refineLiveCell fn K c && replayOk fn K c
          let ms := refineStageT fn K s2.base
          let bi : Option (List (CellTR Float) × Bool) :=
            match ms with
            | .ok b3 => some (beforeIntegrationR fn fx K.base b3.cells)
            | .error _ => none
          let ok := stepOkFromD s ev sv (fun _ => live) (fun _ => ms) (fun _ => bi.getD ([], false))
          let logs := s2.base.cells.map fun c => PipelineR.refineLog fn (kR K c.k) (PipelineR.faceTypes (kR K c.k) c.mesh)
          let ns := (logs.map fun l => (l.filter (fun e => e.1)).length).foldl (· + ·) 0
          let nm := (logs.map fun l => (l.filter (fun e => !e.1)).length).foldl (· + ·) 0
          match ms, bi with
          | .ok b3, some r =>
            let b := physFrom K b3 r
            let rm := removedPositions b.cells
            out.putStrLn s!"O {s.base.iter} {b01 ok} {nready} {ev.length} {rm.length} {ns} {nm} {b01 rebased}"
            s := removalP { s2 with base := b }
          | .error e, _ =>
            out.putStrLn s!"O {s.base.iter} {b01 ok} {nready} {ev.length} 0 {ns} {nm} {b01 rebased}"
            out.putStrLn s!"X {e.name}"
            stop := true
          | _, _ => stop := true
  out.putStrLn "END"

end TissueDDrv

/-! ### tissue with remeshing, division round with the daughters COMPUTED by `divideCellM` (recorded axis and interface triangulation), removal -/
namespace TissueD2Drv
open Simu.Remesh Simu.TissueR Simu.TissueP Simu.TissueD Simu.TissueD2 TissueDrv RemeshDrv TissueRDrv TissuePDrv

structure DIRec where
  iter : Nat
  ins : List (DivIn Float)

def pRecD : P (RecD Float) := do
  let np ← pNat
  let pts ← pMany np (do let x ← pF; let y ← pF; pure (x, y))
  let nt ← pNat
  let tris ← pMany nt (do let a ← pNat; let b ← pNat; let c ← pNat; pure (a, b, c))
  pure ⟨pts.toList, tris.toList⟩

def pDivIn : P (DivIn Float) := do
  let ax ← pV
  let h ← pNat
  if h == 0 then pure ⟨ax, none⟩ else do
    let d ← pRecD
    pure ⟨ax, some d⟩

def pDI : P DIRec := do
  expect "DI"
  let it ← pNat; let k ← pNat; let ins ← pMany k pDivIn
  pure ⟨it, ins.toList⟩

def pTissueD2 : P (ConstsTR Float × Nat × Nat × StateTP Float × List DIRec) := do
  let n ← pNat; let every ← pNat; let nc ← pNat; let sw ← pNat
  if every == 0 then failure
  let dt ← pF; let damping ← pF; let lmin ← pF; let cutAdh ← pF; let cutRep ← pF; let sp ← pF
  let it ← pNat; let fileNo ← pNat; let maxId ← pNat; let time ← pF
  let cells ← pMany nc (do let id ← pNat; let lid ← pNat; let c ← pCellTR; pure ((⟨id, lid⟩ : Ident), c))
  expect "DIN"
  let k ← pNat
  let recs ← pMany k pDI
  let i ← get
  if i ≠ (← read).size then failure
  let K : Tissue.Consts Float :=
    { dt := dt, damping := damping, lmin := lmin, cutAdh := cutAdh, cutRep := cutRep,
      dotAdh := cosDeg Gen.dotAdhDeg1, dotRep := cosDeg Gen.dotRepDeg1, big := dblMax, inf := dblInf, delta := Gen.gridDeltaFloat }
  pure ({ base := K, samplingPeriod := sp, swapOn := sw != 0, maxIter := 1000000 }, n, every,
        { base := { iter := it, time := time, fileNo := Int.ofNat fileNo, cells := (cells.toList.map (·.2)), defined := true },
          idents := cells.toList.map (·.1), maxId := maxId }, recs.toList)

/-- over the executed divisions of one round (the loop of `eventsGo`): how many satisfy the per-division condition
    `daughtersOkB` of Properties/C14DivisionInvariants.lean (held, not met) -/
def dokGo (fn : Fn Float) (K : ConstsTR Float) : List (CellTR Float) → List (DivIn Float) → Nat × Nat
  | [], _ => (0, 0)
  | c :: cs, ins =>
    if readyD c then
      match ins with
      | [] => (0, 0)
      | inp :: rest =>
        let r := dokGo fn K cs rest
        match divideCellM fn K c inp with
        | some _ => if daughtersOkB fn c inp then (r.1 + 1, r.2) else (r.1, r.2 + 1)
        | none => r
    else dokGo fn K cs ins

def simulate (out : IO.FS.Stream) (K : ConstsTR Float) (n every : Nat) (s0 : StateTP Float) (recs : List DIRec) : IO Unit := do
  let fn := Fn.float
  let fx := FX.float
  let P := Tissue.cparams K.base
  -- `# cok0`: how many cells of the INITIAL state pass the Boolean test of the mesh invariants (`Remesh.cellOkB`)
  out.putStrLn s!"H setup {if 0.0 ≤ K.base.delta && 0.0 < P.padding && 0.0 < P.voxel then 1 else 0} # cok0 {(s0.base.cells.filter fun c => cellOkB c.mesh).length} {s0.base.cells.length}"
  out.putStrLn s!"H endPhases {if endPhases == [Pop.Phase.stats, Pop.Phase.remove, Pop.Phase.renumber] then 1 else 0}"
  out.putStrLn s!"H stageOrder {if Gen.Division.stageOrder == ["rebase", "centroid", "axis", "addpts", "divfaces", "coarse", "mapxy", "tri", "mapback", "daughters", "refine1", "refine2", "target1", "target2", "rebase1", "rebase2"] then 1 else 0}"
  let mut s := s0
  let mut stop := false
  for k in [0:n+1] do
    if stop then break
    if k % every == 0 || k == n then
      for l in showStateTP s do out.putStrLn l
    if s.base.cells.isEmpty then break
    if k < n then
      let sv := saveMeshT fn K s.base
      match sv with
      | .error e =>
        out.putStrLn s!"X {e.name}"
        stop := true
      | .ok b1 =>
        let rebased := b1.fileNo != s.base.fileNo
        let nready := if dividesNow b1.iter then (b1.cells.filter readyD).length else 0
        let ins : List (DivIn Float) := ((recs.find? fun r => r.iter == b1.iter).map (·.ins)).getD []
        -- `tissueIterationD2 s ins` is, by definition, `tissueIterationD s (eventsD2 fn K b1 ins)`
        let ev := eventsD2 fn K b1 ins
        let insOk := insOkD2 fn K b1 ins
        let dok : Nat × Nat := if dividesNow b1.iter then dokGo fn K b1.cells ins else (0, 0)
        -- the centroid the model cuts through, per ready cell (for the harness' `DA` line)
        if dividesNow b1.iter then
          for c in b1.cells.filter readyD do
            match rebaseCell c with
            | .ok c' => out.putStrLn s!"DC {b1.iter} {showV (centroidM c')} {b01 (motherOk c')}"
            | .error _ => out.putStrLn s!"DC {b1.iter} - - - 0"
        let s2 := divisionRoundD { s with base := b1 } ev
        if !ins.isEmpty then
          out.putStrLn s!"DS {b1.iter}"
          for l in (showStateTP s2).drop 1 do out.putStrLn l
          out.putStrLn "DE"
        let live := s2.base.cells.all fun c => refineLiveCell fn K c && replayOk fn K c
        let ms := refineStageT fn K s2.base
        let bi : Option (List (CellTR Float) × Bool) :=
          match ms with
          | .ok b3 => some (beforeIntegrationR fn fx K.base b3.cells)
          | .error _ => none
        let ok := insOk && stepOkFromD s ev sv (fun _ => live) (fun _ => ms) (fun _ => bi.getD ([], false))
        let logs := s2.base.cells.map fun c => PipelineR.refineLog fn (kR K c.k) (PipelineR.faceTypes (kR K c.k) c.mesh)
        let ns := (logs.map fun l => (l.filter (fun e => e.1)).length).foldl (· + ·) 0
        let nm := (logs.map fun l => (l.filter (fun e => !e.1)).length).foldl (· + ·) 0
        match ms, bi with
        | .ok b3, some r =>
          let b := physFrom K b3 r
          let rm := removedPositions b.cells
          out.putStrLn s!"O {s.base.iter} {b01 ok} {nready} {ev.length} {rm.length} {ns} {nm} {b01 rebased} {b01 insOk} {ins.length} # dok {dok.1} {dok.2}"
          s := removalP { s2 with base := b }
        | .error e, _ =>
          out.putStrLn s!"O {s.base.iter} {b01 ok} {nready} {ev.length} 0 {ns} {nm} {b01 rebased} {b01 insOk} {ins.length} # dok {dok.1} {dok.2}"
          out.putStrLn s!"X {e.name}"
          stop := true
        | _, _ => stop := true
  out.putStrLn "END"

end TissueD2Drv

partial def loop (h : IO.FS.Stream) (out : IO.FS.Stream) : IO Unit := do
  let line ← h.getLine
  if line.isEmpty then return ()
  match (line.trimAscii.toString.splitOn " ").filter (· ≠ "") with
  | "run" :: args =>
    match parseRun args with
    | some (c, n, every, s) => simulate out c n every s
    | none => out.putStrLn "bad-op"
  | "runr" :: args =>
    match (RemeshDrv.pRunR.run 0).run args.toArray with
    | some ((K, n, every, s), _) => RemeshDrv.simulate out K n every s
    | none => out.putStrLn "bad-op"
  | "tissued2" :: args =>
    match (TissueD2Drv.pTissueD2.run 0).run args.toArray with
    | some ((K, n, every, s, recs), _) => TissueD2Drv.simulate out K n every s recs
    | none => out.putStrLn "bad-op"
  | "tissued" :: args =>
    match (TissueDDrv.pTissueD.run 0).run args.toArray with
    | some ((K, n, every, s, recs), _) => TissueDDrv.simulate out K n every s recs
    | none => out.putStrLn "bad-op"
  | "tissuep" :: args =>
    match (TissuePDrv.pTissueP.run 0).run args.toArray with
    | some ((K, n, every, s), _) => TissuePDrv.simulate out K n every s
    | none => out.putStrLn "bad-op"
  | "tissuer" :: args =>
    match (TissueRDrv.pTissueR.run 0).run args.toArray with
    | some ((K, n, every, s), _) => TissueRDrv.simulate out K n every s
    | none => out.putStrLn "bad-op"
  | "tissue" :: args =>
    match (TissueDrv.pTissue.run 0).run args.toArray with
    | some ((K, n, every, s), _) => TissueDrv.simulate out K n every s
    | none => out.putStrLn "bad-op"
  | [] => pure ()
  | _ => out.putStrLn "bad-op"
  loop h out

def main : IO Unit := do
  let out ← IO.getStdout
  loop (← IO.getStdin) out
