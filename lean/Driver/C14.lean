import Driver.Proto
import SimuVerif.Model.Pipeline
/-
  Model driver of C14 (assembled iteration of a single free cell): runs `Pipeline.cellIteration` at `Float`, i.e. the
  very definition the theorems of Properties/C14Pipeline.lean are about, from an initial state taken from the first
  snapshot of harness/h_solver.cpp, and prints the state in the snapshot format of that harness.

  request (one line, blank separated; doubles as 16 hex digits):
    run <n> <every> <nn> <nf> <nt> <epithelial 0|1>
        K maxP aem iso angf minVol growth divVol density dt damping lmin        (12 doubles)
        nt × (surface_tension bending_modulus)
        <iteration> time area volume target_volume pressure                     (Nat, 5 doubles)
        nn × (x y z)   nn × (px py pz)   nf × (n1 n2 n3 type)
  answer: for k = 0 … n
    D <iteration> <stepOk 0|1>            (before the iteration is run; not printed for k = n)
    and when k % every = 0 or k = n, the lines of h_solver:
    S <iteration> <time> 1
    C 0 0 <type 0> <nn> <nf> <area> <volume> <target volume> <pressure>
    P … / M … / T …
  then END (or `bad-op`).
-/
open Simu Simu.Forces Simu.Pipeline Driver

def parseFacesT : Nat → List String → Option (List Face)
  | 0, [] => some []
  | n + 1, a :: b :: c :: t :: rest => do
    let a ← a.toNat?; let b ← b.toNat?; let c ← c.toNat?; let t ← t.toNat?
    let fs ← parseFacesT n rest
    pure (⟨a, b, c, t⟩ :: fs)
  | _, _ => none

def showSlots (t : Slots (V3 Float)) : String :=
  t.arr.foldl (fun s v => s ++ " " ++ showV v) ""

def showState (s : State Float) : List String :=
  [s!"S {s.iter} {showF s.time} 1",
   s!"C 0 0 0 {s.nn} {s.faces.length} {showF s.area} {showF s.volume} {showF s.tvol} {showF s.pressure}",
   "P" ++ showSlots s.pos,
   "M" ++ showSlots s.mom,
   "T" ++ s.faces.foldl (fun acc f => acc ++ s!" {f.a} {f.b} {f.c} {f.ty}") ""]

def simulate (out : IO.FS.Stream) (c : Consts Float) (n every : Nat) (s0 : State Float) : IO Unit := do
  let fx := FX.float
  let mut s := s0
  for k in [0:n+1] do
    if k % every == 0 || k == n then
      for l in showState s do out.putStrLn l
    if k < n then
      out.putStrLn s!"D {s.iter} {if stepOk fx c s then 1 else 0}"
      s := cellIteration fx c s
  out.putStrLn "END"

def parseRun (args : List String) : Option (Consts Float × Nat × Nat × State Float) := do
  let n ← (← args[0]?).toNat?
  let every ← (← args[1]?).toNat?
  let nn ← (← args[2]?).toNat?
  let nf ← (← args[3]?).toNat?
  let nt ← (← args[4]?).toNat?
  let epi ← (← args[5]?).toNat?
  if every == 0 then none
  let rest := args.drop 6
  let nc := 12 + 2 * nt
  if rest.length ≠ nc + 1 + 5 + 6 * nn + 4 * nf then none
  let cs ← parseFs (rest.take nc)
  let ca := cs.toArray
  let g := fun (i : Nat) => ca.getD i 0
  let fts := (List.range nt).map fun t => (⟨g (12 + 2 * t), g (13 + 2 * t)⟩ : FaceType Float)
  let c : Consts Float :=
    { K := g 0, maxP := g 1, aem := g 2, iso := g 3, angf := g 4, minVol := g 5, growth := g 6, divVol := g 7,
      density := g 8, dt := g 9, damping := g 10, lmin := g 11, ft := fts, epithelial := epi != 0 }
  let rest := rest.drop nc
  let it ← (← rest[0]?).toNat?
  let ds ← parseFs ((rest.drop 1).take (5 + 6 * nn))
  let da := ds.toArray
  let h := fun (i : Nat) => da.getD i 0
  let vec := fun (o i : Nat) => (⟨h (o + 3 * i), h (o + 3 * i + 1), h (o + 3 * i + 2)⟩ : V3 Float)
  let pos : Array (V3 Float) := (Array.range nn).map (vec 5)
  let mom : Array (V3 Float) := (Array.range nn).map (vec (5 + 3 * nn))
  let F ← parseFacesT nf (rest.drop (1 + 5 + 6 * nn))
  if F.any (fun f => f.a ≥ nn || f.b ≥ nn || f.c ≥ nn || f.ty ≥ nt) then none
  let zero : Nat → V3 Float := fun _ => ⟨0, 0, 0⟩
  let s : State Float :=
    { iter := it, time := h 0, pos := ⟨pos, zero⟩, mom := ⟨mom, zero⟩, faces := F,
      area := h 1, volume := h 2, tvol := h 3, pressure := h 4 }
  pure (c, n, every, s)

partial def loop (h : IO.FS.Stream) (out : IO.FS.Stream) : IO Unit := do
  let line ← h.getLine
  if line.isEmpty then return ()
  match (line.trimAscii.toString.splitOn " ").filter (· ≠ "") with
  | "run" :: args =>
    match parseRun args with
    | some (c, n, every, s) => simulate out c n every s
    | none => out.putStrLn "bad-op"
  | [] => pure ()
  | _ => out.putStrLn "bad-op"
  loop h out

def main : IO Unit := do
  let out ← IO.getStdout
  loop (← IO.getStdin) out
