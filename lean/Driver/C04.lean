import Driver.Proto
import SimuVerif.Model.CellCycle
/-
  C04 model driver: replays the log of `harness/h_cycle.cpp` (the REAL solver) on the executable model
  `Model/CellCycle.lean` at `Float` (`ln = Float.log`, `exp = Float.exp`) and prints, line for line, what
  the model says the log should be.  Taken from the log as inputs of the model: the parameter sets, the
  volumes enclosed by the meshes (`compute_volume()`), the two random draws of every cell, which cells were
  replaced by daughters and the daughters' volume at birth.  Everything else (target volumes, pressures,
  division flags, who is removed, in which order the survivors stand, which ids are issued) is computed by
  the model (`newborn`, `solverInit`, `divPhase`, `midPop`, `iterate`) and compared by tools/props/c04.py.
-/
open Simu Simu.CellCycle Driver

def inf : Float := 1.0 / 0.0

def optOf (x : Float) : Option Float := if x == inf then none else some x
def ofOpt (o : Option Float) : Float := match o with | none => inf | some x => x

def kindOf (n : Nat) : Option Kind :=
  match n with
  | 0 => some .epithelial | 1 => some .ecm | 2 => some .lumen | 3 => some .nucleus | 4 => some .static
  | _ => none

structure MidObs where
  id : Nat
  tyIdx : Nat
  v0 : Float   -- volume_ before apply_internal_forces
  t0 : Float   -- target_volume_ before
  p0 : Float
  v : Float    -- volume_ after
  g : Float
  vdiv : Float

structure St where
  types : Array (CellType Float) := #[]
  born : List (Nat × Nat × Float) := []          -- id, type index, volume at construction
  tyIdx : List (Nat × Nat) := []                 -- id ↦ type index (echoed)
  pending : List (Cell Float) := []              -- the cells handed to solver::solver, before `initPop`
  pop : Pop Float := { cells := [], nextId := 0 }
  it : Nat := 0
  dt : Float := 0
  pre : List Nat := []
  obs : List MidObs := []                        -- reversed
  goneVals : List (Nat × Float × Float) := []    -- id ↦ (volume, target volume) after clear_data, per the model

def lookup {α : Type} (l : List (Nat × α)) (k : Nat) : Option α := (l.find? (fun x => x.1 == k)).map (·.2)

def showCellTail (c : Cell Float) : String :=
  s!"{showF c.vol} {showF c.tv} {showF c.p} {showF c.g} {showF (ofOpt c.vdiv)}"

def tyIdxOf (s : St) (id : Nat) : Nat := (lookup s.tyIdx id).getD 999

def nat? (w : String) : Option Nat := w.toNat?

/-- handle one log line: new state and the lines the model predicts -/
def step (s : St) (line : String) : St × List String :=
  let ws := (line.trimAscii.toString.splitOn " ").filter (· ≠ "")
  match ws with
  | ["begin"] => ({}, ["begin"])
  | "type" :: idx :: kind :: rest =>
    match nat? idx, (nat? kind).bind kindOf, parseFs rest with
    | some _, some k, some [bulk, maxP, initP, gAvg, gStd, dvAvg, dvStd, minVol] =>
      let ty : CellType Float := { kind := k, bulk := bulk, maxP := optOf maxP, initP := initP, gAvg := gAvg, gStd := gStd,
                                   dvAvg := optOf dvAvg, dvStd := dvStd, minVol := minVol }
      ({ s with types := s.types.push ty },
       [s!"type {idx} {kind} {showF ty.bulk} {showF (ofOpt ty.maxP)} {showF ty.initP} {showF ty.gAvg} {showF ty.gStd} {showF (ofOpt ty.dvAvg)} {showF ty.dvStd} {showF ty.minVol}"])
    | _, _, _ => (s, ["bad-line"])
  | ["born", id, ty, v] =>
    match nat? id, nat? ty, parseF v with
    | some i, some t, some x => ({ s with born := s.born ++ [(i, t, x)] }, [s!"born {i} {t} {showF x}"])
    | _, _, _ => (s, ["bad-line"])
  | ["init", id, ty, _v, _vt, _p, g, vdiv, _ready] =>
    match nat? id, nat? ty, parseF g, parseF vdiv with
    | some i, some t, some g, some vd =>
      match lookup s.born i, s.types[t]? with
      | some (t', vb), some cty =>
        if t' ≠ t then (s, ["bad-type"]) else
        -- the model numbers the cells itself (`initPop`): the id printed is the model's
        let pending := s.pending ++ [newborn 0 cty vb g vd]
        let pop := initPop Fn.float pending
        match pop.cells.getLast? with
        | some c =>
          ({ s with pending := pending, pop := pop, tyIdx := s.tyIdx ++ [(c.id, t)] },
           [s!"init {c.id} {t} {showCellTail c} {if ready c then 1 else 0}"])
        | none => (s, ["bad-init"])
      | _, _ => (s, ["bad-init"])
    | _, _, _, _ => (s, ["bad-line"])
  | "iter" :: n :: dt :: _counter :: "pre" :: ids =>
    match nat? n, parseF dt, ids.mapM nat? with
    | some n, some dt, some ids =>
      ({ s with it := n, dt := dt, pre := ids, obs := [], goneVals := [] },
       [s!"iter {n} {showF dt} {s.pop.nextId} pre" ++ String.join (s.pop.ids.map (fun i => s!" {i}"))])
    | _, _, _ => (s, ["bad-line"])
  | ["mid", id, ty, _subj, v0, t0, p0, v, _vt, _p, g, vdiv] =>
    match nat? id, nat? ty, parseFs [v0, t0, p0, v, g, vdiv] with
    | some i, some t, some [v0, t0, p0, v, g, vdiv] =>
      ({ s with obs := { id := i, tyIdx := t, v0 := v0, t0 := t0, p0 := p0, v := v, g := g, vdiv := vdiv } :: s.obs }, [])
    | _, _, _ => (s, ["bad-line"])
  | "post" :: _ids =>
    let obs := s.obs.reverse
    let midIds := obs.map (·.id)
    let fresh := obs.filter (fun o => !s.pre.contains o.id)
    -- the k-th mother (in list order) gets the newborn observations 2k and 2k+1
    let mothers := (s.pop.cells.filter (fun c => s.pre.contains c.id && !midIds.contains c.id)).map (·.id)
    let dOf (m : Nat) (second : Bool) : Float × Float × Float :=
      match mothers.idxOf? m with
      | some k => match fresh[2 * k + (if second then 1 else 0)]? with
                  | some o => (o.v0, o.g, o.vdiv)
                  | none => (0, 0, 0)
      | none => (0, 0, 0)
    let e : Event Float := { tmpStep := false, divides := fun id => mothers.contains id, daughter := dOf,
                             vol := fun id => match obs.find? (fun o => o.id == id) with | some o => o.v | none => 0 }
    let p1 := divPhase s.it s.pop e
    let m := midPop Fn.float s.dt s.it s.pop e
    let q := iterate Fn.float s.dt s.it s.pop e
    let tyIdx := s.tyIdx ++ (fresh.map (fun o => (o.id, o.tyIdx)))
    let s' := { s with tyIdx := tyIdx }
    let midLines := (p1.cells.zip m.cells).map (fun (b, c) =>
      s!"mid {c.id} {tyIdxOf s' c.id} {if Gen.CellCycle.subjectToInternalForces c.ty.kind then 1 else 0} {showF b.vol} {showF b.tv} {showF b.p} {showCellTail c}")
    let gone := (s.pop.cells.filter (fun c => !q.ids.contains c.id)).map (fun c =>
      match m.cells.find? (fun x => x.id == c.id) with
      | some x => let r := Gen.CellCycle.removalLambda x.vol x.tv x.ty.minVol; (c.id, r.2.1, r.2.2)
      | none => (c.id, (0 : Float), (0 : Float)))     -- a mother: clear_data
    ({ s' with pop := q, obs := [], goneVals := gone },
     midLines ++ ["post" ++ String.join (q.ids.map (fun i => s!" {i}"))])
  | ["state", id, _ty, _v, _vt, _p, _g, _vdiv, _ready] =>
    match nat? id with
    | some i =>
      match s.pop.cells.find? (fun c => c.id == i) with
      | some c => (s, [s!"state {i} {tyIdxOf s i} {showCellTail c} {if ready c then 1 else 0}"])
      | none => (s, [s!"state {i} absent"])
    | none => (s, ["bad-line"])
  | ["gone", id, _v, _vt, _nn] =>
    match nat? id with
    | some i =>
      match lookup s.goneVals i with
      | some (v, t) => (s, [s!"gone {i} {showF v} {showF t} 0"])
      | none => (s, [s!"gone {i} present"])
    | none => (s, ["bad-line"])
  | "halt" :: _ => (s, [line.trimAscii.toString])
  | "error" :: _ => (s, [line.trimAscii.toString])
  | ["end"] => (s, ["end"])
  | [] => (s, [])
  | _ => (s, ["bad-line"])

partial def loop (h : IO.FS.Stream) (out : IO.FS.Stream) (s : St) : IO Unit := do
  let line ← h.getLine
  if line.isEmpty then return ()
  let (s', ls) := step s line
  for l in ls do out.putStrLn l
  loop h out s'

def main : IO Unit := do
  let out ← IO.getStdout
  loop (← IO.getStdin) out {}
