import SimuVerif.Gen.Population
/-
  Model driver of C08 (core Lean only).  Two requests, all fields natural numbers:

  replay n0 (kind nTypes static)^n0 K ( ndiv (motherPos)^ndiv nrem (pos)^nrem )^K
      replays the OBSERVED events (which positions divided, in which order; which positions were
      removed) on the model with the code shape extracted from the source; answers, per iteration,
      "len counter (id lid)^len" after the division round and at the end of the iteration.

  check pt nextObj <state as printed by harness/h_population.cpp after "obs it pt">
      evaluates the executable invariant checkers and the dereference lists of the model on an
      observed state; answers "invBase couplingsValid nPost okPost nPol okPol nForces okForces nInt okInt".
-/
open Simu.Pop
open Simu.Gen.Population (code)

def parseNats (ws : List String) : Option (List Nat) := ws.mapM (fun w => w.toNat?)

def takeN {α : Type} (f : List Nat → Option (α × List Nat)) : Nat → List Nat → Option (List α × List Nat)
  | 0, l => some ([], l)
  | k + 1, l => do
    let (a, l1) ← f l
    let (as, l2) ← takeN f k l1
    pure (a :: as, l2)

def takeNode : List Nat → Option (Node × List Nat)
  | nid :: used :: hasC :: c :: n :: rest =>
    some ({ nid := nid, used := used != 0, coupled := if hasC != 0 then some (c, n) else none }, rest)
  | _ => none

def takeFace : List Nat → Option (Face × List Nat)
  | used :: ty :: ow :: n1 :: n2 :: n3 :: rest =>
    some ({ used := used != 0, typeIdx := ty, owner := if ow = 0 then none else some (ow - 1), n1 := n1, n2 := n2, n3 := n3 }, rest)
  | _ => none

def takeCell : List Nat → Option (Cell × List Nat)
  | obj :: id :: lid :: kind :: nft :: st :: nn :: nf :: rest => do
    let (nodes, r1) ← takeN takeNode nn rest
    let (faces, r2) ← takeN takeFace nf r1
    pure ({ obj := obj, cellId := id, localId := lid, kind := kind, nTypes := nft, isStatic := st != 0,
            nodes := nodes, faces := faces }, r2)
  | _ => none

def b2s (b : Bool) : String := if b then "1" else "0"

def allSafe (s : State) (ds : List Deref) : Bool := ds.all (safeB s)

def doCheck (l : List Nat) : String :=
  match l with
  | _pt :: nextObj :: _it :: _pt2 :: len :: counter :: rest =>
    match takeN takeCell len rest with
    | some (cells, []) =>
      let s : State := { cells := cells, maxId := counter, nextObj := nextObj, iter := 0 }
      let post := derefsContactPost s
      let pol := derefsPolarise s
      let frc := derefsForces s
      let itg := derefsIntegrate s
      s!"{b2s (invBaseB s)} {b2s (couplingsValidB s)} {post.length} {b2s (allSafe s post)} {pol.length} {b2s (allSafe s pol)} {frc.length} {b2s (allSafe s frc)} {itg.length} {b2s (allSafe s itg)}"
    | _ => "bad-state"
  | _ => "bad-op"

def takeInit : List Nat → Option (Cell × List Nat)
  | kind :: nft :: st :: rest =>
    some ({ obj := 0, cellId := 0, localId := 0, kind := kind, nTypes := nft, isStatic := st != 0, nodes := [], faces := [] }, rest)
  | _ => none

def takeNat : List Nat → Option (Nat × List Nat)
  | a :: rest => some (a, rest)
  | [] => none

def takeIter : List Nat → Option ((List Nat × List Nat) × List Nat)
  | ndiv :: rest => do
    let (ms, r1) ← takeN takeNat ndiv rest
    match r1 with
    | nrem :: r2 => do
      let (rm, r3) ← takeN takeNat nrem r2
      pure ((ms, rm), r3)
    | [] => none
  | [] => none

def showCells (s : State) : String :=
  let body := String.intercalate " " (s.cells.map (fun c => s!"{c.cellId} {c.localId}"))
  s!"{s.cells.length} {s.maxId} {body}"

def emptyD : Daughters := { m1 := ⟨[], []⟩, m2 := ⟨[], []⟩, junk1 := 4000000000, junk2 := 4000000001 }

def doReplay (l : List Nat) : String :=
  match l with
  | n0 :: rest =>
    match takeN takeInit n0 rest with
    | some (cells, k :: r1) =>
      match takeN takeIter k r1 with
      | some (its, []) =>
        let cells := cells.zipIdx.map (fun p => { p.1 with obj := p.2 })
        let s0 := init cells n0
        let (_, out) := its.foldl (fun (acc : State × List String) it =>
          let e : IterEv := { save := [], failRebase := [], div := it.1.map (fun i => (i, emptyD)), refine := [],
                              contacts := [], pol := fun _ _ => false, removed := it.2 }
          let s := acc.1
          let sd := stateAfter code e .divide s
          let s' := iteration code e s
          (s', acc.2 ++ [showCells sd, showCells s'])) (s0, [showCells s0])
        String.intercalate " | " out
      | _ => "bad-events"
    | _ => "bad-init"
  | [] => "bad-op"

def step (line : String) : String :=
  match line.trimAscii.toString.splitOn " " with
  | "check" :: args => match parseNats args with
    | some l => doCheck l
    | none => "bad-op"
  | "replay" :: args => match parseNats args with
    | some l => doReplay l
    | none => "bad-op"
  | _ => "bad-op"

partial def loop (h : IO.FS.Stream) (out : IO.FS.Stream) : IO Unit := do
  let line ← h.getLine
  if line.isEmpty then return ()
  out.putStrLn (step line)
  loop h out

def main : IO Unit := do
  let out ← IO.getStdout
  loop (← IO.getStdin) out
