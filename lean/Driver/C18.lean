import Driver.Proto
import SimuVerif.Gen.ParamTable
/-
  Model driver of C18 (and of the XML part of C17): runs `Params.readParams` with the tables generated from
  parameter_reader.cpp on the element tree sent on the request line.

  request   read <path> N <k|-1> {<tag> <text>}^k C <n|-1> { L <k> {<tag> <text>}^k F <m|-1> { S <k> {<tag> <text>}^k }^m }^n
                 D <j> {<text> <stod result: d<16 hex>|-> <stoi result: i<int>|->}^j
            (strings travel as x<hex of the bytes>; the path is for the C++ harness, which reads the file itself;
             the D table is `std::stod` / `std::stoi` pre-computed by the Python side: on this wire they are look-ups)
  answer    ok N f=v … ; C f=v … ; F f=v … ; F … ; C …      v = d<16 hex> | i<int> | b0|b1 | s<hex>
            err <kind> [x<hex tag>] [k]
-/
open Simu Simu.Params Driver

def hexStr (s : String) : String :=
  String.join (s.toList.map (fun c => hexOfNat c.toNat 2))

def unhexStr (s : String) : Option String :=
  let cs := s.toList
  let rec go : List Char → List Char → Option (List Char)
    | [], acc => some acc.reverse
    | [_], _ => none
    | a :: b :: t, acc =>
      match hexDigit a, hexDigit b with
      | some x, some y => go t (Char.ofNat (x * 16 + y) :: acc)
      | _, _ => none
  (go cs []).map String.ofList

def xstr (w : String) : Option String :=
  if w.startsWith "x" then unhexStr (w.drop 1).toString else none

abbrev Toks := List String

def takePairs : Nat → Toks → Option (Children × Toks)
  | 0, ts => some ([], ts)
  | n + 1, a :: b :: ts =>
    match xstr a, xstr b, takePairs n ts with
    | some x, some y, some (l, r) => some ((x, y) :: l, r)
    | _, _, _ => none
  | _, _ => none

def takeSections (lead : String) : Nat → Toks → Option (List Children × Toks)
  | 0, ts => some ([], ts)
  | n + 1, l :: k :: ts =>
    if l ≠ lead then none else
    match k.toNat? with
    | none => none
    | some kk =>
      match takePairs kk ts with
      | none => none
      | some (ch, r) =>
        match takeSections lead n r with
        | some (l', r') => some (ch :: l', r')
        | none => none
  | _, _ => none

def takeCells : Nat → Toks → Option (List CellSec × Toks)
  | 0, ts => some ([], ts)
  | n + 1, "L" :: k :: ts =>
    match k.toNat? with
    | none => none
    | some kk =>
      match takePairs kk ts with
      | some (ch, "F" :: m :: r) =>
        let faces : Option (Option (List Children) × Toks) :=
          if m = "-1" then some (none, r) else
          match m.toNat? with
          | none => none
          | some mm => (takeSections "S" mm r).map (fun p => (some p.1, p.2))
        match faces with
        | none => none
        | some (f, r') =>
          match takeCells n r' with
          | some (cs, r'') => some (⟨ch, f⟩ :: cs, r'')
          | none => none
      | _ => none
  | _, _ => none

structure NumTab where
  d : List (String × Float)
  i : List (String × Int)

def takeNums : Nat → Toks → NumTab → Option NumTab
  | 0, [], acc => some acc
  | 0, _, _ => none
  | n + 1, t :: dv :: iv :: ts, acc =>
    match xstr t with
    | none => none
    | some text =>
      let acc1 : Option NumTab :=
        if dv = "-" then some acc else
        if dv.startsWith "d" then (parseF (dv.drop 1).toString).map (fun x => { acc with d := (text, x) :: acc.d }) else none
      match acc1 with
      | none => none
      | some a1 =>
        let acc2 : Option NumTab :=
          if iv = "-" then some a1 else
          if iv.startsWith "i" then ((iv.drop 1).toString.toInt?).map (fun n => { a1 with i := (text, n) :: a1.i }) else none
        match acc2 with
        | none => none
        | some a2 => takeNums n ts a2
  | _, _, _ => none

def parseRequest (ts : Toks) : Option (XmlTree × NumTab) :=
  match ts with
  | "N" :: k :: r =>
    let num : Option (Option Children × Toks) :=
      if k = "-1" then some (none, r) else
      match k.toNat? with
      | none => none
      | some kk => (takePairs kk r).map (fun p => (some p.1, p.2))
    match num with
    | some (n, "C" :: c :: r1) =>
      let cells : Option (Option (List CellSec) × Toks) :=
        if c = "-1" then some (none, r1) else
        match c.toNat? with
        | none => none
        | some cc => (takeCells cc r1).map (fun p => (some p.1, p.2))
      match cells with
      | some (cs, "D" :: j :: r2) =>
        match j.toNat? with
        | none => none
        | some jj => (takeNums jj r2 ⟨[], []⟩).map (fun nt => (⟨n, cs⟩, nt))
      | _ => none
    | _ => none
  | _ => none

def fInf : Float := Float.ofBits 0x7FF0000000000000
def fMax : Float := Float.ofBits 0x7FEFFFFFFFFFFFFF
def fNaN : Float := Float.ofBits 0x7FF8000000000000

def parsers (nt : NumTab) : Parsers Float :=
  { stod := fun s => assoc s nt.d,
    stoi := fun s => assoc s nt.i,
    const := fun s =>
      if s = infinityExpr then fInf
      else if s = "std::numeric_limits<double>::max()" then fMax
      else if s = "-std::numeric_limits<double>::infinity()" then -fInf
      else fNaN,
    emptyIsMissing := Gen.emptyIsMissing }

def showValue : Value Float → String
  | .str s => "s" ++ hexStr s
  | .dbl x => "d" ++ showF x
  | .int n => "i" ++ toString n
  | .bool b => if b then "b1" else "b0"

def showRec (r : Record Float) : String :=
  " ".intercalate (r.map (fun p => p.1 ++ "=" ++ showValue p.2))

def showErr : Err → String
  | .missingSection n => "err nosection x" ++ hexStr n
  | .noCellType => "err nocelltype"
  | .noFaceType => "err nofacetype"
  | .missingTag t => "err missing x" ++ hexStr t
  | .rejected t k => "err rejected x" ++ hexStr t ++ " " ++ toString k
  | .badNumber t => "err badnumber x" ++ hexStr t
  | .emptyText t => "err terminate x" ++ hexStr t

def step (line : String) : String :=
  match line.trimAscii.toString.splitOn " " with
  | "read" :: _path :: rest =>
    match parseRequest rest with
    | none => "bad-op"
    | some (tree, nt) =>
      match readParams (parsers nt) Gen.paramTables tree with
      | .error e => showErr e
      | .ok p =>
        "ok N " ++ showRec p.numerical ++
          String.join (p.cells.map (fun c => " ; C " ++ showRec c.fields ++ String.join (c.faces.map (fun f => " ; F " ++ showRec f))))
  | "run" :: _ => "skip"
  | _ => "bad-op"

partial def loop (h : IO.FS.Stream) (out : IO.FS.Stream) : IO Unit := do
  let line ← h.getLine
  if line.isEmpty then return ()
  out.putStrLn (step line)
  loop h out

def main : IO Unit := do
  let out ← IO.getStdout
  loop (← IO.getStdin) out
