import SimuVerif.Model.Vec
/-
  Line protocol helpers of the model driver: doubles travel as 16-digit hexadecimal bit patterns.
-/
namespace Driver
open Simu

def hexDigit (c : Char) : Option Nat :=
  if '0' ≤ c ∧ c ≤ '9' then some (c.toNat - '0'.toNat)
  else if 'a' ≤ c ∧ c ≤ 'f' then some (c.toNat - 'a'.toNat + 10)
  else if 'A' ≤ c ∧ c ≤ 'F' then some (c.toNat - 'A'.toNat + 10)
  else none

def parseHex (s : String) : Option Nat :=
  if s.isEmpty then none else
  s.foldl (fun acc c => match acc, hexDigit c with
    | some a, some d => some (a * 16 + d)
    | _, _ => none) (some 0)

def parseF (s : String) : Option Float :=
  (parseHex s).map (fun n => Float.ofBits (UInt64.ofNat n))

def hexOfNat (n : Nat) (width : Nat) : String :=
  let rec go (k : Nat) (n : Nat) (acc : List Char) : List Char :=
    match k with
    | 0 => acc
    | k+1 => go k (n / 16) ((Nat.digitChar (n % 16)) :: acc)
  String.ofList (go width n [])

def showF (x : Float) : String := hexOfNat x.toBits.toNat 16

def parseFs (ws : List String) : Option (List Float) := ws.mapM parseF

def v3 (l : List Float) (i : Nat) : V3 Float := ⟨l.getD i 0, l.getD (i+1) 0, l.getD (i+2) 0⟩

def showV (v : V3 Float) : String := s!"{showF v.x} {showF v.y} {showF v.z}"

end Driver
