import Driver.Proto
import SimuVerif.Gen.Kernel
/-
  Model driver: one request per input line, one answer per output line.  Runs the executable
  models (the very definitions the theorems are about) at `Float`.
-/
open Simu Driver

def step (line : String) : String :=
  match line.trimAscii.toString.splitOn " " with
  | "kernel" :: args =>
    match parseFs args with
    | some l =>
      if l.length ≠ 12 then "bad-op" else
      let r := Gen.closestPt (v3 l 0) (v3 l 3) (v3 l 6) (v3 l 9)
      s!"{showF r.1} {showV r.2}"
    | none => "bad-op"
  | _ => "bad-op"

partial def loop (h : IO.FS.Stream) (out : IO.FS.Stream) : IO Unit := do
  let line ← h.getLine
  if line.isEmpty then return ()
  out.putStrLn (step line)
  loop h out

def main : IO Unit := do
  let out ← IO.getStdout
  loop (← IO.getStdin) out
