import Driver.Proto
import SimuVerif.Model.Gate
import SimuVerif.Model.Poisson
/-
  C13 model driver (Float instance of Model/Gate.lean and Model/Poisson.lean); same requests as harness/h_reconstruct.cpp:
    gate <nn> <nf> <3·nn hex> <3·nf ids>            -> ok <nf> <3·nf ids> <area> <volume> | err integrity | err notmanifold | err undefined
    coarse <nn> <nf> <3·nn hex> <faces: k i1 … ik>  -> mesh <nn'> <nf'> <3·nn' hex> <3·nf' ids>
    dart <l_min> <voxel> <6 hex box> <n> <3·n hex>  -> pts <n> <m> <3·m hex>
    tries <k>                                        -> the retry loop with attempts 0 … k-1 failing and attempt k succeeding:
                                                        ok <iterations> | exc initialisation <iterations> | null <iterations>
-/
open Simu Driver Simu.Geo Simu.Gate Simu.Poisson Simu.Grid

def parseNats (ws : List String) : Option (List Nat) := ws.mapM String.toNat?

def tris : List Nat → List Tri
  | a :: b :: c :: rest => (a, b, c) :: tris rest
  | _ => []

def showTri (t : Tri) : String := s!"{t.1} {t.2.1} {t.2.2}"

def posOf (nn : Nat) (xs : List Float) : Nat → V3 Float :=
  let arr : Array (V3 Float) := Id.run do
    let mut a : Array (V3 Float) := Array.mkEmpty nn
    let xa := xs.toArray
    for i in [0:nn] do
      a := a.push ⟨xa.getD (3*i) 0, xa.getD (3*i+1) 0, xa.getD (3*i+2) 0⟩
    return a
  fun i => arr.getD i ⟨0, 0, 0⟩

def gate (nn nf : Nat) (xs : List Float) (ids : List Nat) : String :=
  let pos := posOf nn xs
  match accept pos nn (tris ids) with
  | .error .integrity => "err integrity"
  | .error .notManifold => "err notmanifold"
  | .error .undefined => "err undefined"
  | .ok T =>
    s!"ok {nf} {" ".intercalate (T.map showTri)} {showF (area Fn.float pos T)} {showF (volume pos T)}"

/-- polygonal faces: k i1 … ik, repeated -/
partial def polys : List Nat → Option (List (List Nat))
  | [] => some []
  | k :: rest =>
    if rest.length < k then none else
    (polys (rest.drop k)).map (fun r => rest.take k :: r)

def coarseOp (nn : Nat) (xs : List Float) (faces : List (List Nat)) : String :=
  let pos := posOf nn xs
  let cs := centres pos faces
  let T := coarseFaces nn faces
  let old := (List.range nn).map pos
  s!"mesh {nn + cs.length} {T.length} {" ".intercalate ((old ++ cs).map showV)} {" ".intercalate (T.map showTri)}"

def pts (l : List Float) : List (V3 Float) :=
  match l with
  | x :: y :: z :: rest => ⟨x, y, z⟩ :: pts rest
  | _ => []

def dartOp (lmin voxel : Float) (b : List Float) (cloud : List (V3 Float)) : String :=
  let fn := Fn.float
  let mn : V3 Float := ⟨b.getD 0 0, b.getD 1 0, b.getD 2 0⟩
  let mx : V3 Float := ⟨b.getD 3 0, b.getD 4 0, b.getD 5 0⟩
  let out := poissonCloud fn Gen.deltaFloat4 voxel lmin mn mx cloud
  s!"pts {cloud.length} {out.length} {" ".intercalate (out.map showV)}"

def triesOp (k : Nat) : String :=
  let att : Nat → Except Exc Nat := fun i => if i < k then .error (.other i) else .ok i
  match tries Exc.initialisation att Gen.Gate.maxNbTries with
  | (.ok (some _), n) => s!"ok {n}"
  | (.ok none, n) => s!"null {n}"
  | (.error .initialisation, n) => s!"exc initialisation {n}"
  | (.error _, n) => s!"exc other {n}"

def step (line : String) : String :=
  match line.trimAscii.toString.splitOn " " with
  | "gate" :: snn :: snf :: rest =>
    match snn.toNat?, snf.toNat? with
    | some nn, some nf =>
      if rest.length ≠ 3 * nn + 3 * nf ∨ nf = 0 ∨ nn = 0 then "bad-op" else
      match parseFs (rest.take (3 * nn)), parseNats (rest.drop (3 * nn)) with
      | some xs, some ids => if ids.any (· ≥ nn) then "bad-op" else gate nn nf xs ids
      | _, _ => "bad-op"
    | _, _ => "bad-op"
  | "coarse" :: snn :: snf :: rest =>
    match snn.toNat?, snf.toNat? with
    | some nn, some nf =>
      if rest.length < 3 * nn ∨ nf = 0 ∨ nn = 0 then "bad-op" else
      match parseFs (rest.take (3 * nn)), parseNats (rest.drop (3 * nn)) with
      | some xs, some ids =>
        match polys ids with
        | some fs => if fs.length ≠ nf ∨ fs.any (fun f => f.length < 3 ∨ f.any (· ≥ nn)) then "bad-op" else coarseOp nn xs fs
        | none => "bad-op"
      | _, _ => "bad-op"
    | _, _ => "bad-op"
  | "dart" :: rest =>
    match parseFs (rest.take 8), rest.drop 8 with
    | some b, sn :: rest2 =>
      match sn.toNat?, parseFs rest2 with
      | some n, some pl =>
        if b.length ≠ 8 ∨ pl.length ≠ 3 * n then "bad-op" else dartOp (b.getD 0 0) (b.getD 1 0) (b.drop 2) (pts pl)
      | _, _ => "bad-op"
    | _, _ => "bad-op"
  | ["tries", sk] =>
    match sk.toNat? with
    | some k => triesOp k
    | none => "bad-op"
  | _ => "bad-op"

partial def loop (h : IO.FS.Stream) (out : IO.FS.Stream) : IO Unit := do
  let line ← h.getLine
  if line.isEmpty then return ()
  out.putStrLn (step line)
  loop h out

def main : IO Unit := do
  let out ← IO.getStdout
  loop (← IO.getStdin) out
