import Driver.Proto
import SimuVerif.Model.Remesh
import SimuVerif.Model.Surface
import SimuVerif.Model.RemeshChecks
import SimuVerif.Model.RemeshMergeChecks
import SimuVerif.Gen.RemeshConsts
/-
  Model driver for C01 / C11: replays mesh construction, node displacements, refinement passes,
  single split / merge / swap operations and compaction on the executable model at `Float`,
  and dumps the complete state in the same format as `harness/h_remesh.cpp`.
  For every single operation it also checks that the concrete model refines the abstract
  operation of `Model/Surface.lean` (`absok` / `absbad`).
  Before every executed collapse (single `merge` requests and the collapses inside `refine`) it evaluates the
  hypotheses of the refinement theorem `C01.merge_refines` (`chkMergeHyps`) and appends ` # mhyps <held> <not met>`
  to the answer (counts of executed collapses); a collapse whose hypotheses are not met is not an error.
-/
open Simu Simu.Remesh Driver

structure St where
  pend : Array (V3 Float) := #[]
  tris : Array (Nat × Nat × Nat) := #[]
  cell : Option (Cell Float) := none

def fnF : Fn Float := Fn.float

def consts : RefineConsts Float := Gen.refineConsts fnF

def showOpt (o : Option Nat) : String := match o with | some x => toString x | none => "-"

def dump (c : Cell Float) : String :=
  let ns := c.nodes.toList.map (fun n => s!"{if n.used then 1 else 0} {showV n.pos} {showV n.mom}")
  let fs := c.faces.toList.map (fun f =>
    if f.used then s!"1 {f.n1} {f.n2} {f.n3} {f.typ} {showV f.normal} {showF f.area}" else "0")
  let es := c.edges.map (fun e => s!"{e.n1} {e.n2} {showOpt e.f1} {showOpt e.f2}")
  -- free queues printed front-to-back as the C++ vector stores them (head of the model list = back)
  let fr (l : List Nat) := " ".intercalate (l.reverse.map toString)
  s!"N {ns.length} ; {" ; ".intercalate ns} | F {fs.length} ; {" ; ".intercalate fs} | E {es.length} ; {" ; ".intercalate es} | FN {fr c.freeNodes} | FF {fr c.freeFaces}"

def natArgs (ws : List String) : Option (List Nat) := ws.mapM String.toNat?

def absCheck (before after : List Surface.Tri) : String :=
  if Surface.canon before == Surface.canon after then "absok" else "absbad"

/-- replica of `refineMesh` (same statements, same order) that only counts: for every EXECUTED collapse, did
    `chkMergeHyps` hold in the state before it?  Returns (held, not met, number of executed operations). -/
def mergeHypsInRefine (k : RefineConsts Float) (lminSq lmaxSq : Float) (swapOn : Bool) (c : Cell Float) (maxIter : Nat) :
    Nat × Nat × Nat :=
  let c0 : Except Err (Cell Float) := if swapOn then removeElongated fnF k c else .ok c
  match c0 with
  | .error _ => (0, 0, 0)
  | .ok c =>
    let rec loop (fuel : Nat) (c : Cell Float) (chk : CheckSet) (iter : Nat) (held bad nops : Nat) : Nat × Nat × Nat :=
      match fuel with
      | 0 => (held, bad, nops)
      | fuel + 1 =>
        if chk.isEmpty || !(iter < c.edges.length) then (held, bad, nops)
        else
          match chk with
          | [] => (held, bad, nops)
          | e :: rest =>
            let l2 := V3.normSq (posOf c e.n1 - posOf c e.n2)
            if lmaxSq < l2 then
              match splitEdge fnF k.split c e rest with
              | .error _ => (held, bad, nops)
              | .ok (c', chk') => loop fuel c' chk' (iter + 1) held bad (nops + 1)
            else if l2 < lminSq then
              match canBeMerged c e with
              | .error _ => (held, bad, nops)
              | .ok false => loop fuel c rest iter held bad nops
              | .ok true =>
                match mergeEdge fnF k.split c e rest with
                | .error _ => (held, bad, nops)
                | .ok (c', chk') =>
                  if chkMergeHyps c e then loop fuel c' chk' (iter + 1) (held + 1) bad (nops + 1)
                  else loop fuel c' chk' (iter + 1) held (bad + 1) (nops + 1)
            else loop fuel c rest iter held bad nops
    loop maxIter c c.edges 0 0 0 0

def step (st : St) (line : String) : St × String :=
  match line.trimAscii.toString.splitOn " " with
  | ["cell"] => ({}, "ok")
  | ["n", x, y, z] =>
    match parseFs [x, y, z] with
    | some [a, b, c] => ({ st with pend := st.pend.push ⟨a, b, c⟩ }, "ok")
    | _ => (st, "bad-op")
  | ["t", a, b, c] =>
    match natArgs [a, b, c] with
    | some [a, b, c] => ({ st with tris := st.tris.push (a, b, c) }, "ok")
    | _ => (st, "bad-op")
  | ["init"] =>
    match initCell fnF st.pend.toList st.tris.toList with
    | .ok c => ({ st with cell := some c }, "ok")
    | .error e => (st, s!"err {e.name}")
  | ["dump"] => (st, match st.cell with | some c => dump c | none => "nocell")
  | ["pos", i, x, y, z] =>
    match st.cell, i.toNat?, parseFs [x, y, z] with
    | some c, some i, some [a, b, d] =>
      (match c.nodes[i]? with
       | some n => ({ st with cell := some { c with nodes := c.nodes.set! i { n with pos := ⟨a, b, d⟩ } } }, "ok")
       | none => (st, "bad-op"))
    | _, _, _ => (st, "bad-op")
  | ["mom", i, x, y, z] =>
    match st.cell, i.toNat?, parseFs [x, y, z] with
    | some c, some i, some [a, b, d] =>
      (match c.nodes[i]? with
       | some n => ({ st with cell := some { c with nodes := c.nodes.set! i { n with mom := ⟨a, b, d⟩ } } }, "ok")
       | none => (st, "bad-op"))
    | _, _, _ => (st, "bad-op")
  | ["typ", f, t] =>
    match st.cell, f.toNat?, t.toNat? with
    | some c, some f, some t => ({ st with cell := some (setFaceType c f t) }, "ok")
    | _, _, _ => (st, "bad-op")
  | ["scores"] =>
    -- `get_triangle_score` of every used face (Model.Remesh.triangleScore at Float)
    match st.cell with
    | some c =>
      let parts := (List.range c.faces.size).filterMap (fun i =>
        match c.faces[i]? with
        | some f =>
          if f.used then
            some (match triangleScore fnF consts c f with
              | .ok (s, e) => s!"{i} {showF s} {e.n1} {e.n2}"
              | .error _ => s!"{i} err")
          else none
        | none => none)
      (st, "S" ++ String.join (parts.map (fun p => " ; " ++ p)))
    | none => (st, "bad-op")
  | ["geom"] =>
    match st.cell with
    | some c => ({ st with cell := some (updAllFaceGeom fnF c) }, "ok")
    | none => (st, "bad-op")
  | ["refine", lmin, lmax, sw] =>
    match st.cell, parseFs [lmin, lmax] with
    | some c, some [lmin, lmax] =>
      let (c', out, log) := refineMesh fnF consts (lmin * lmin) (lmax * lmax) (sw == "1") c 1000000
      let o := match out with
        | .returned => "returned" | .threw e => s!"threw {e.name}" | .fuelOut => "fuel"
      let ls := log.reverse.map (fun (p : Bool × Nat × Nat × Float) => s!"{if p.1 then "s" else "m"} {p.2.1} {p.2.2.1} {showF p.2.2.2}")
      -- collapses executed in this pass: were the hypotheses of `C01.merge_refines` met before each of them?
      let nm := (log.filter (fun p => !p.1)).length
      let mh := if nm == 0 then "" else
        let (held, bad, nops) := mergeHypsInRefine consts (lmin * lmin) (lmax * lmax) (sw == "1") c 1000000
        if nops == log.length && held + bad == nm then s!" # mhyps {held} {bad}" else " # mhyps-desync"
      ({ st with cell := some c' }, s!"{o} ops {log.length} : {" , ".intercalate ls}{mh}")
    | _, _ => (st, "bad-op")
  | ["split", a, b] =>
    match st.cell, a.toNat?, b.toNat? with
    | some c, some a, some b =>
      (match getEdge c a b with
       | none => (st, "noedge")
       | some e =>
         match splitEdge fnF consts.split c e [] with
         | .ok (c', _) =>
           -- the new node is the one `add_node` hands out
           let enew := match c.freeNodes with | i :: _ => i | [] => c.nodes.size
           ({ st with cell := some c' }, s!"ok {if Surface.splitGuardB (abs c) e.n1 e.n2 && chkSplitHyps c e then absCheck (Surface.splitT (abs c) e.n1 e.n2 enew) (abs c') else "absbad"}")
         | .error x => (st, s!"err {x.name}"))
    | _, _, _ => (st, "bad-op")
  | ["canmerge", a, b] =>
    match st.cell, a.toNat?, b.toNat? with
    | some c, some a, some b =>
      (match getEdge c a b with
       | none => (st, "noedge")
       | some e => match canBeMerged c e with
         | .ok r => (st, if r then (if Surface.linkCondB (abs c) e.n1 e.n2 then "true absok" else "true absbad") else "false")
         | .error x => (st, s!"err {x.name}"))
    | _, _, _ => (st, "bad-op")
  | ["merge", a, b] =>
    match st.cell, a.toNat?, b.toNat? with
    | some c, some a, some b =>
      (match getEdge c a b with
       | none => (st, "noedge")
       | some e =>
         match mergeEdge fnF consts.split c e [] with
         | .ok (c', _) =>
           let inew := match c.freeNodes with | i :: _ => i | [] => c.nodes.size
           -- the hypotheses of `C01.merge_refines`, evaluated in the state BEFORE the collapse
           let mh := if chkMergeHyps c e then "# mhyps 1 0" else "# mhyps 0 1"
           ({ st with cell := some c' }, s!"ok {absCheck (Surface.collapseT (abs c) e.n1 e.n2 inew) (abs c')} {mh}")
         | .error x => (st, s!"err {x.name}"))
    | _, _, _ => (st, "bad-op")
  | ["swap", a, b] =>
    match st.cell, a.toNat?, b.toNat? with
    | some c, some a, some b =>
      (match getEdge c a b with
       | none => (st, "noedge")
       | some e =>
         match swapEdge fnF c e with
         | .ok c' =>
           let T := abs c
           -- orient the abstract swap by the triangle that traverses n1→n2
           let t1 := T.find? (fun t => Surface.hasDir t e.n1 e.n2)
           let t2 := T.find? (fun t => Surface.hasDir t e.n2 e.n1)
           let chk := match t1, t2 with
             | some _, some _ =>
               let done := Surface.canon (abs c') != Surface.canon T
               if done then (if chkSwapHyps c e then absCheck (Surface.swapT T e.n1 e.n2) (abs c') else "absbad")
               else "absok-noop"
             | _, _ => "absbad"
           ({ st with cell := some c' }, s!"ok {chk}")
         | .error x => (st, s!"err {x.name}"))
    | _, _, _ => (st, "bad-op")
  | ["rebase"] =>
    match st.cell with
    | some c => (match rebase c with
      | .ok c' => ({ st with cell := some c' }, "ok")
      | .error x => (st, s!"err {x.name}"))
    | none => (st, "bad-op")
  | ["topo"] =>
    match st.cell with
    | some c =>
      let T := abs c
      (st, s!"closedsimple {Surface.closedSimpleB T} nondeg {Surface.nonDegB T} chi {Surface.chi T} faces {T.length}")
    | none => (st, "bad-op")
  | _ => (st, "bad-op")

partial def loop (h : IO.FS.Stream) (out : IO.FS.Stream) (st : St) : IO Unit := do
  let line ← h.getLine
  if line.isEmpty then return ()
  let (st', ans) := step st line
  out.putStrLn ans
  out.flush
  loop h out st'

def main : IO Unit := do
  let out ← IO.getStdout
  loop (← IO.getStdin) out {}
