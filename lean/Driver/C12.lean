import Driver.Proto
import SimuVerif.Model.Geometry
/-
  C12 model driver: runs `Geo.initCell` and the getters of Model/Geometry.lean at `Float`.
  request : geo <nn> <nf> <3·nn doubles as hex> <3·nf node ids>
  answer  : ok <nf> <3·nf node ids> <area volume cx cy cz minx miny minz maxx maxy maxz
                                     cxx cxy cxz cyy cyz czz> <nf face areas> <3·nf face normals>
            err integrity | err notmanifold | err undefined
  request : sel <3 eigenvalues as hex>      answer : ok <index of the column get_cell_longest_axis returns>
-/
open Simu Driver Simu.Geo

def parseNats (ws : List String) : Option (List Nat) := ws.mapM String.toNat?

def tris : List Nat → List Tri
  | a :: b :: c :: rest => (a, b, c) :: tris rest
  | _ => []

def showTri (t : Tri) : String := s!"{t.1} {t.2.1} {t.2.2}"

def inf : Float := 1.0 / 0.0

def geo (nn nf : Nat) (xs : List Float) (ids : List Nat) : String :=
  let arr : Array (V3 Float) := Id.run do
    let mut a : Array (V3 Float) := Array.mkEmpty nn
    let xa := xs.toArray
    for i in [0:nn] do
      a := a.push ⟨xa.getD (3*i) 0, xa.getD (3*i+1) 0, xa.getD (3*i+2) 0⟩
    return a
  let pos : Nat → V3 Float := fun i => arr.getD i ⟨0, 0, 0⟩
  let T := tris ids
  match initCell Fn.float pos nn T with
  | .error .integrity => "err integrity"
  | .error .notManifold => "err notmanifold"
  | .error .undefined => "err undefined"
  | .ok g =>
    let c := centroid Fn.float pos g.faces
    let (a1, a2, a3, a4, a5, a6) := aabb inf pos g.faces nn
    let (r1, r2, r3) := covMatrix Fn.float pos g.faces nn
    let fs := " ".intercalate (g.faces.map showTri)
    let nums := [g.area, g.volume, c.x, c.y, c.z, a1, a2, a3, a4, a5, a6, r1.x, r1.y, r1.z, r2.y, r2.z, r3.z]
    let fa := g.faces.map (fun t => showF (faceArea Fn.float pos t))
    let fnm := g.faces.map (fun t => showV (faceNormal Fn.float pos t))
    s!"ok {nf} {fs} {" ".intercalate (nums.map showF)} {" ".intercalate fa} {" ".intercalate fnm}"

def step (line : String) : String :=
  match line.trimAscii.toString.splitOn " " with
  | "geo" :: snn :: snf :: rest =>
    match snn.toNat?, snf.toNat? with
    | some nn, some nf =>
      if rest.length ≠ 3 * nn + 3 * nf ∨ nf = 0 ∨ nn = 0 then "bad-op" else
      match parseFs (rest.take (3 * nn)), parseNats (rest.drop (3 * nn)) with
      | some xs, some ids => if ids.any (· ≥ nn) then "bad-op" else geo nn nf xs ids
      | _, _ => "bad-op"
    | _, _ => "bad-op"
  | ["sel", a, b, c] =>
    -- the if-chain at the end of `get_cell_longest_axis` (Gen.Geometry.axisColumn) on the eigenvalues of the REAL solver
    match parseFs [a, b, c] with
    | some [e0, e1, e2] => s!"ok {Simu.Gen.Geometry.axisColumn (⟨e0, e1, e2⟩ : V3 Float)}"
    | _ => "bad-op"
  | _ => "bad-op"

partial def loop (h : IO.FS.Stream) (out : IO.FS.Stream) : IO Unit := do
  let line ← h.getLine
  if line.isEmpty then return ()
  out.putStrLn (step line)
  loop h out

def main : IO Unit := do
  let out ← IO.getStdout
  loop (← IO.getStdin) out
