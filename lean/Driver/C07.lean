import Driver.Proto
import SimuVerif.Gen.ContactRule
/-
  Model driver of C07 (`drv_c07`): one request per input line, one answer per output line.
    rule <model> <cut_adh> <cut_rep> <l_min> t1 t2 id1 id2  p a b c  face normal, area  normals of the node and the three
         face nodes  their curvatures  max curvature of the two cell types  adh rep  squared distances of couplings
         already present on the four nodes (negative: none)
      ->  the generated per-pair rule of that contact model at `Float`: forces on the node and the three face nodes,
          coupling flag, index of the face node chosen, squared distance recorded
-/
open Simu Simu.Gen Driver

abbrev P := StateT Nat (ReaderT (Array String) Option)

def tok : P String := do
  let i ← get
  let a ← read
  if h : i < a.size then
    set (i + 1)
    pure a[i]
  else failure

def pNat : P Nat := do
  let s ← tok
  match s.toNat? with
  | some n => pure n
  | none => failure

def pF : P Float := do
  let s ← tok
  match parseF s with
  | some x => pure x
  | none => failure

def pV : P (V3 Float) := do
  let x ← pF; let y ← pF; let z ← pF
  pure ⟨x, y, z⟩

def dblMax : Float := Float.ofBits 0x7FEFFFFFFFFFFFFF
def piF : Float := Float.ofBits 0x400921FB54442D18
def cosDeg (d : Nat) : Float := Float.cos (Float.ofNat d * piF / 180.0)

def showForces (F : Forces Float) : String := s!"{showV F.fn} {showV F.f1} {showV F.f2} {showV F.f3}"

def pRule : P String := do
  let cm ← pNat
  let cadh ← pF; let crep ← pF; let lmin ← pF
  let t1 ← pNat; let t2 ← pNat; let id1 ← pNat; let id2 ← pNat
  let p ← pV; let a ← pV; let b ← pV; let c ← pV
  let fnrm ← pV; let area ← pF
  let nn ← pV; let n1n ← pV; let n2n ← pV; let n3n ← pV
  let cv ← pF; let cv1 ← pF; let cv2 ← pF; let cv3 ← pF
  let mc1 ← pF; let mc2 ← pF
  let adh ← pF; let rp ← pF
  let pre ← pF; let pre1 ← pF; let pre2 ← pF; let pre3 ← pF
  let mkN (pos nrm : V3 Float) (curv pre : Float) : CNode Float :=
    ⟨pos, nrm, curv, pre ≥ 0.0, if pre ≥ 0.0 then pre else dblMax⟩
  let c1 : CCell Float := ⟨id1, t1, mc1⟩
  let c2 : CCell Float := ⟨id2, t2, mc2⟩
  let n1 := mkN p nn cv pre
  let f1 := mkN a n1n cv1 pre1
  let f2 := mkN b n2n cv2 pre2
  let f3 := mkN c n3n cv3 pre3
  let fc : CFace Float := ⟨fnrm, area, adh, rp⟩
  let fn := Fn.float
  match cm with
  | 0 =>
    let PP := mkParams0 cadh crep lmin 0.0 0.0 dblMax
    let F := rule0 fn PP c1 c2 n1 fc f1 f2 f3
    pure s!"{showForces F} 0 0 {showF 0.0}"
  | 1 =>
    let PP := mkParams12 cadh crep lmin (cosDeg dotAdhDeg1) (cosDeg dotRepDeg1) dblMax
    let o := rule1 fn PP c1 c2 n1 fc f1 f2 f3
    pure s!"{showForces o.forces} {if o.coupled then 1 else 0} {o.idx} {showF o.dist}"
  | 2 =>
    let PP := mkParams12 cadh crep lmin (cosDeg dotAdhDeg2) (cosDeg dotRepDeg2) dblMax
    let o := rule2 fn PP c1 c2 n1 fc f1 f2 f3
    pure s!"{showForces o.forces} {if o.coupled then 1 else 0} {o.idx} {showF o.dist}"
  | _ => failure

def step (line : String) : String :=
  let ws := (line.trimAscii.toString.splitOn " ").filter (· ≠ "")
  match ws with
  | "rule" :: rest =>
    match (pRule.run 0).run rest.toArray with
    | some (s, _) => s
    | none => "bad-op"
  | _ => "bad-op"

partial def loop (h : IO.FS.Stream) (out : IO.FS.Stream) : IO Unit := do
  let line ← h.getLine
  if line.isEmpty then return ()
  out.putStrLn (step line)
  loop h out

def main : IO Unit := do
  let out ← IO.getStdout
  loop (← IO.getStdin) out
