// C19 harness: runs the REAL solver::run() (main loop, save_mesh, statistics writers, removal, final record)
// on tiny populations for a requested (T, dt, S) and prints everything the property talks about:
//   "it  k tb ta fn ctr | A ids.. | M ids.. | E ids.."   one line per executed iteration, printed by a subclass of solver
//        that overrides only the virtual run_iteration() (log, forward to solver::run_iteration(), log):
//        k = iteration_ before the call, tb/ta = simulation time before/after (hex doubles), fn = file_number_ after,
//        ctr = max_cell_id_ after, A = cell list at the start, M = cell list right after cell_divider::run (seen by the
//        first virtual update_face_types() call of the iteration), E = cell list when run_iteration() returned
//   "rec it t n {id type area volume target_volume pressure}*n"   one line per write_data() call, printed by a forwarding
//        statistics writer wrapped around the writer the solver constructed (the real writer still does the writing):
//        the getters of every listed cell at the very moment the row is written (hex doubles)
//   "sline <text>"  the lines of solver::get_simulation_statistics() (in-memory statistics, instr=1)
//   "end N t fn n ids.."   state after run() returned;   "rd <path> ..." answers of the real mesh_reader
//   "done <status>"
// Requests:  run out=<dir> T=<hex> dt=<hex> S=<hex> mesh=cube|ico1 n=<cells> gap=<m> instr=0|1 phys=0|1 g=<rate> minv=<frac>
//                divv=<frac> sched=it:pos:R|D,...  maxit=<cap>
//            (phys=0: arbitrary time scale — the cells are static, i.e. skipped by the node update; growth, pressure, removal, statistics and
//             files run as usual)
//            read <path>          (real mesh_reader on a written file: number of cells, nodes and faces per cell)
#include "proto.hpp"
#include <map>
#include <set>
#include <cmath>
#include <algorithm>
#include <unistd.h>
#include "solver.hpp"
#include "mesh_reader.hpp"
#include "epithelial_cell.hpp"

// friend of cell (declared in cell.hpp): reach protected members without touching /repo
class cell_tester {
public:
    static void set_type(cell& c, cell_type_param_ptr p){ c.cell_type_ = p; }
    static void set_division_volume(cell& c, double v){ c.division_volume_ = v; }
    static void set_static(cell& c, bool v){ c.is_static_ = v; }
};

namespace {
class probe_solver;
probe_solver* g_solver = nullptr;
bool g_mid_fired = false;
std::string g_mid;
vec3 g_axis(1., 0., 0.);

std::string ids_of(const std::vector<cell_ptr>& l){
    std::ostringstream o; o << l.size();
    for(const cell_ptr& c : l) o << ' ' << c->get_id();
    return o.str();
}

// forwards to the writer constructed by the solver; logs what the cells say when the rows are written
class tee_writer : public abstract_statistics_writer {
public:
    abstract_statistics_writer* inner_ = nullptr;
    void write_data(const unsigned iteration, const double simulation_time, const std::vector<cell_ptr>& cell_lst) noexcept(false) override {
        std::ostringstream o;
        o << "rec " << iteration << ' ' << vproto::to_hex(simulation_time) << ' ' << cell_lst.size();
        for(const cell_ptr& c : cell_lst){
            const auto ct = c->get_cell_type();
            o << ' ' << c->get_id() << ' ' << (ct ? (int)ct->global_type_id_ : -1) << ' ' << vproto::to_hex(c->get_area()) << ' ' << vproto::to_hex(c->get_volume())
              << ' ' << vproto::to_hex(c->get_target_volume()) << ' ' << vproto::to_hex(c->get_pressure());
        }
        std::cout << o.str() << '\n'; std::cout.flush();
        inner_->write_data(iteration, simulation_time, cell_lst);
    }
};

struct sched_item { long it; unsigned pos; char act; };

class probe_solver : public solver {
public:
    using solver::solver;
    std::vector<sched_item> sched_;
    long maxit_ = 100000;
    bool inert_ = false;
    tee_writer* tee_ = nullptr;
    void wrap_writer(){
        tee_ = new tee_writer();
        tee_->inner_ = statistic_writer_ptr_.release();
        statistic_writer_ptr_.reset(tee_);
    }
    void unwrap_writer(){
        statistic_writer_ptr_.release();              // the tee object is deliberately leaked (no virtual destructor in the base)
        statistic_writer_ptr_.reset(tee_->inner_);
    }
    unsigned counter() const { return max_cell_id_; }
    unsigned iteration() const { return iteration_; }
    unsigned file_number() const { return file_number_; }
    double time() const { return time_integrator_ptr_->get_simulation_time(); }

    void run_iteration() noexcept(false) override {
        if((long)iteration_ >= maxit_) throw std::runtime_error("iteration-cap");
        size_t nb_nodes = 0;
        for(const cell_ptr& c : cell_lst_) nb_nodes += c->get_node_lst().size();
        if(nb_nodes > 20000) throw std::runtime_error("mesh-explosion");
        // phys=0: the time step is arbitrary (not a stable step of the mechanics): the cells are kept where they are
        if(inert_) for(const cell_ptr& c : cell_lst_) cell_tester::set_static(*c, true);
        // scheduled parameter changes that force an event at a chosen list position during this iteration
        for(const auto& s : sched_) if(s.it == (long)iteration_ && cell_lst_.size() > 0){
            cell_ptr c = cell_lst_[s.pos % cell_lst_.size()];
            if(s.act == 'R'){ auto t = std::make_shared<cell_type_parameters>(*c->get_cell_type()); t->min_vol_ = 1e3; t->max_pressure_ = 10.; cell_tester::set_type(*c, t); }   // own copy of the type; pressure capped: the target volume is clamped up to min_vol_
            else if(s.act == 'D'){ cell_tester::set_division_volume(*c, 0.); }
        }
        std::ostringstream o;
        o << "it " << iteration_ << ' ' << vproto::to_hex(time());
        const std::string a = ids_of(cell_lst_);
        g_mid_fired = false; g_mid = "?";
        solver::run_iteration();
        o << ' ' << vproto::to_hex(time()) << ' ' << file_number_ << ' ' << max_cell_id_ << " | " << a << " | " << g_mid << " | " << ids_of(cell_lst_);
        std::cout << o.str() << '\n'; std::cout.flush();
    }
};

class probe_epi : public epithelial_cell {
public:
    probe_epi(const mesh& m, unsigned id, cell_type_param_ptr t) noexcept : epithelial_cell(m, id, t) {}
    cell_ptr get_cell_same_type(const mesh& m) noexcept(false) override { return std::make_shared<probe_epi>(m, cell_id_, cell_type_); }
    void update_face_types() noexcept override {
        if(!g_mid_fired && g_solver != nullptr){ g_mid_fired = true; g_mid = ids_of(g_solver->get_cell_lst()); }
        epithelial_cell::update_face_types();
    }
    vec3 get_cell_division_axis() const noexcept override { return g_axis; }
};

// ---------------------------------------------------------------- meshes
mesh translated(const mesh& m, double dx, double dy, double dz){
    mesh r = m;
    for(size_t i = 0; i < r.node_pos_lst.size(); i += 3){ r.node_pos_lst[i] += dx; r.node_pos_lst[i+1] += dy; r.node_pos_lst[i+2] += dz; }
    return r;
}
void bbox(const mesh& m, double lo[3], double hi[3]){
    for(int k = 0; k < 3; k++){ lo[k] = 1e300; hi[k] = -1e300; }
    for(size_t i = 0; i < m.node_pos_lst.size(); i++){ int k = i % 3; lo[k] = std::min(lo[k], m.node_pos_lst[i]); hi[k] = std::max(hi[k], m.node_pos_lst[i]); }
}
// subdivided icosahedron of the given radius, faces wound outwards
mesh icosphere(int level, double radius){
    const double t = (1.0 + std::sqrt(5.0)) / 2.0;
    std::vector<std::array<double,3>> v = {{-1,t,0},{1,t,0},{-1,-t,0},{1,-t,0},{0,-1,t},{0,1,t},{0,-1,-t},{0,1,-t},{t,0,-1},{t,0,1},{-t,0,-1},{-t,0,1}};
    std::vector<std::array<unsigned,3>> f = {{0,11,5},{0,5,1},{0,1,7},{0,7,10},{0,10,11},{1,5,9},{5,11,4},{11,10,2},{10,7,6},{7,1,8},
                                             {3,9,4},{3,4,2},{3,2,6},{3,6,8},{3,8,9},{4,9,5},{2,4,11},{6,2,10},{8,6,7},{9,8,1}};
    auto norm = [](std::array<double,3>& p){ double l = std::sqrt(p[0]*p[0]+p[1]*p[1]+p[2]*p[2]); for(auto& x : p) x /= l; };
    for(auto& p : v) norm(p);
    for(int l = 0; l < level; l++){
        std::map<std::pair<unsigned,unsigned>, unsigned> mid;
        auto midpoint = [&](unsigned a, unsigned b){
            auto key = std::make_pair(std::min(a,b), std::max(a,b));
            auto it = mid.find(key); if(it != mid.end()) return it->second;
            std::array<double,3> p = {(v[a][0]+v[b][0])/2, (v[a][1]+v[b][1])/2, (v[a][2]+v[b][2])/2}; norm(p);
            v.push_back(p); mid[key] = v.size() - 1; return (unsigned)(v.size() - 1);
        };
        std::vector<std::array<unsigned,3>> g;
        for(auto& tr : f){
            unsigned a = midpoint(tr[0], tr[1]), b = midpoint(tr[1], tr[2]), c = midpoint(tr[2], tr[0]);
            g.push_back({tr[0], a, c}); g.push_back({tr[1], b, a}); g.push_back({tr[2], c, b}); g.push_back({a, b, c});
        }
        f = g;
    }
    mesh m;
    for(auto& p : v){ m.node_pos_lst.push_back(p[0]*radius); m.node_pos_lst.push_back(p[1]*radius); m.node_pos_lst.push_back(p[2]*radius); }
    for(auto& tr : f){
        const auto &a = v[tr[0]], &b = v[tr[1]], &c = v[tr[2]];
        double ux=b[0]-a[0], uy=b[1]-a[1], uz=b[2]-a[2], wx=c[0]-a[0], wy=c[1]-a[1], wz=c[2]-a[2];
        double nx=uy*wz-uz*wy, ny=uz*wx-ux*wz, nz=ux*wy-uy*wx;
        if(nx*a[0]+ny*a[1]+nz*a[2] > 0) m.face_point_ids.push_back({tr[0], tr[1], tr[2]});
        else m.face_point_ids.push_back({tr[0], tr[2], tr[1]});
    }
    return m;
}

std::map<std::string, std::string> parse_kv(const std::vector<std::string>& w){
    std::map<std::string, std::string> kv;
    for(size_t i = 1; i < w.size(); i++){ auto p = w[i].find('='); if(p != std::string::npos) kv[w[i].substr(0, p)] = w[i].substr(p + 1); }
    return kv;
}
std::vector<std::string> split_on(const std::string& s, char sep){
    std::vector<std::string> out; std::string cur;
    for(char c : s){ if(c == sep){ out.push_back(cur); cur.clear(); } else cur += c; }
    if(!cur.empty() || !s.empty()) out.push_back(cur);
    return out;
}

cell_type_param_ptr make_type(bool phys, double growth, double min_vol, double div_vol){
    auto ct = std::make_shared<cell_type_parameters>();
    ct->name_ = "epithelial";
    ct->global_type_id_ = 0;
    ct->mass_density_ = 1e3; ct->bulk_modulus_ = phys ? 1e4 : 1e-12; ct->initial_pressure_ = 0; ct->max_pressure_ = 1e20;
    ct->avg_growth_rate_ = growth; ct->std_growth_rate_ = 0; ct->target_isoperimetric_ratio_ = 150;
    ct->angle_regularization_factor_ = 0; ct->area_elasticity_modulus_ = 0; ct->surface_coupling_max_curvature_ = 1e20;
    ct->avg_division_vol_ = div_vol; ct->std_division_vol_ = 0; ct->min_vol_ = min_vol;
    for(unsigned k = 0; k < 2; k++){
        face_type_parameters ft; ft.name_ = "ft" + std::to_string(k); ft.face_type_global_id_ = k;
        ft.adherence_strength_ = 0; ft.repulsion_strength_ = phys ? 2e9 : 0.; ft.surface_tension_ = phys ? (k == 0 ? 1e-3 : 5e-4) : 0.; ft.bending_modulus_ = 0;
        ct->add_face_type(ft);
    }
    return ct;
}

std::string run_scenario(const std::map<std::string, std::string>& kv){
    auto get = [&](const char* k, const char* d){ auto it = kv.find(k); return it == kv.end() ? std::string(d) : it->second; };
    const std::string mesh_name = get("mesh", "cube"), out = get("out", "");
    if(out.rfind("/tmp/", 0) != 0) return "bad-out";
    const unsigned n = std::stoul(get("n", "1"));
    const double T = vproto::from_hex(get("T", "0")), dt = vproto::from_hex(get("dt", "0")), S = vproto::from_hex(get("S", "0"));
    const bool instr = get("instr", "0") == "1", phys = get("phys", "0") == "1";
    const double growth_frac = std::stod(get("g", "0")), minv = std::stod(get("minv", "0")), divv = std::stod(get("divv", "1e30"));
    const double gapf = std::stod(get("gap", "5"));
    std::vector<sched_item> sched;
    if(kv.count("sched") && !kv.at("sched").empty())
        for(auto& s : split_on(kv.at("sched"), ',')){ auto p = split_on(s, ':'); if(p.size() == 3) sched.push_back({std::stol(p[0]), (unsigned)std::stoul(p[1]), p[2][0]}); }

    double lmin;
    mesh base;
    if(mesh_name == "cube"){
        lmin = 4e-6;
        mesh_reader rd(std::string(PROJECT_SOURCE_DIR) + "/data/input_meshes/cube.vtk", false);
        base = rd.read().at(0);
    }
    else if(mesh_name == "ico1"){ lmin = 7.5e-7; base = icosphere(1, 2.0 * lmin * 1.2); }
    else return "bad-mesh";
    double lo[3], hi[3]; bbox(base, lo, hi);
    base = translated(base, -lo[0], -lo[1], -lo[2]);
    const double sx = hi[0] - lo[0];

    global_simulation_parameters sim;
    sim.input_mesh_path_ = std::string(PROJECT_SOURCE_DIR) + "/data/input_meshes/cube.vtk";
    sim.output_folder_path_ = out;
    sim.damping_coefficient_ = 2.0e-09; sim.simulation_duration_ = T; sim.sampling_period_ = S; sim.time_step_ = dt;
    sim.min_edge_len_ = lmin; sim.contact_cutoff_adhesion_ = (mesh_name == "cube" ? 1.2e-6 : 5e-7); sim.contact_cutoff_repulsion_ = sim.contact_cutoff_adhesion_;
    sim.enable_edge_swap_operation_ = false; sim.perform_initial_triangulation_ = false;

    g_solver = nullptr;
    g_axis = vec3(0.8, 0.5, 0.33).normalize();
    std::vector<cell_ptr> cells;
    // the volume of the base mesh scales the growth rate / minimum volume / division volume of the request
    double v0 = 0;
    {
        auto probe = std::make_shared<probe_epi>(base, 0, make_type(phys, 0, 0, 1e30));
        probe->initialize_cell_properties();
        v0 = probe->get_volume();
    }
    // growth is given as the fraction of the initial volume gained over the whole run
    const double growth = (T > 0) ? growth_frac * v0 / T : 0.;
    for(unsigned i = 0; i < n; i++){
        auto ct = make_type(phys, growth, minv * v0, divv >= 1e29 ? 1e30 : divv * v0);
        mesh m = translated(base, i * sx * (1. + gapf), 0, 0);
        cell_ptr c = std::make_shared<probe_epi>(m, i, ct);
        c->initialize_cell_properties();
        cells.push_back(c);
    }
    // the solver is deliberately never destroyed: ~solver deletes its writers / contact model through base pointers
    // without virtual destructors (a finding of another property), which would end the run under ASan
    probe_solver& sol = *(new probe_solver(sim, cells, 1, instr, false));
    cells.clear();
    sol.sched_ = sched;
    sol.maxit_ = std::stol(get("maxit", "100000"));
    sol.inert_ = !phys;
    sol.wrap_writer();
    g_solver = &sol;
    std::cout << "init " << vproto::to_hex(v0) << ' ' << sol.counter() << ' ' << ids_of(sol.get_cell_lst()) << '\n';
    std::string status = "ok";
    try{ sol.run(); }
    catch(const std::exception& e){ status = std::string("exception ") + e.what(); for(auto& ch : status) if(ch == '\n') ch = ' '; }
    g_solver = nullptr;
    sol.unwrap_writer();
    if(instr){
        std::istringstream is(sol.get_simulation_statistics());
        std::string l;
        while(std::getline(is, l)) std::cout << "sline " << l << '\n';
    }
    std::cout << "end " << sol.iteration() << ' ' << vproto::to_hex(sol.time()) << ' ' << sol.file_number() << ' ' << ids_of(sol.get_cell_lst()) << '\n';
    return status;
}

std::string read_file(const std::string& path){
    mesh_reader rd(path, false);
    std::vector<mesh> ms = rd.read();
    std::ostringstream o; o << "rd " << ms.size();
    for(const mesh& m : ms) o << ' ' << m.node_pos_lst.size() / 3 << ' ' << m.face_point_ids.size();
    return o.str();
}
}

int main(){
    std::ios::sync_with_stdio(false);
    std::string line;
    while(std::getline(std::cin, line)){
        auto w = vproto::split(line);
        if(w.size() == 2 && w[0] == "read"){
            std::string a;
            try{ a = read_file(w[1]); }
            catch(const std::exception& e){ a = std::string("rd-exception ") + e.what(); for(auto& ch : a) if(ch == '\n') ch = ' '; }
            std::cout << a << '\n'; std::cout.flush();
            continue;
        }
        if(w.empty() || w[0] != "run"){ std::cout << "done bad-op\n"; std::cout.flush(); continue; }
        std::string st;
        try{ st = run_scenario(parse_kv(w)); }
        catch(const std::exception& e){ st = std::string("exception ") + e.what(); for(auto& ch : st) if(ch == '\n') ch = ' '; }
        std::cout << "done " << st << '\n'; std::cout.flush();
    }
    return 0;
}
