// C05 harness: runs the real contact_model_abstract::compute_node_triangle_distance on the
// cases of the line protocol ("kernel <12 hex doubles>": p a b c) and prints d u v w.
#include "proto.hpp"
#include "contact_model_abstract.hpp"

int main(){
    std::ios::sync_with_stdio(false);
    std::string line;
    while(std::getline(std::cin, line)){
        auto w = vproto::split(line);
        if(w.size() != 13 || w[0] != "kernel"){ std::cout << "bad-op\n"; continue; }
        double x[12];
        for(int i = 0; i < 12; i++) x[i] = vproto::from_hex(w[i+1]);
        const vec3 p(x[0],x[1],x[2]), a(x[3],x[4],x[5]), b(x[6],x[7],x[8]), c(x[9],x[10],x[11]);
        auto [d, bary] = contact_model_abstract::compute_node_triangle_distance(p, a, b, c);
        std::cout << vproto::to_hex(d) << ' ' << vproto::to_hex(bary.dx()) << ' ' << vproto::to_hex(bary.dy())
                  << ' ' << vproto::to_hex(bary.dz()) << '\n';
    }
    return 0;
}
