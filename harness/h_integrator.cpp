// C03 harness: builds the population described on a request line, calls the REAL
// time_integration_scheme::update_nodes_positions `nsteps` times and prints the simulated time and the
// full dynamic state (position, momentum, force) of every node slot of every cell.
//
// request:  integ CM DM threads dt damping nsteps ncells
//              { localId kind density volume nnodes { used px py pz mx my mz fx fy fz k { c n }*k }*nnodes }*ncells
//           (doubles as 16-hex-digit bit patterns, integers in decimal; kind = global cell type id:
//            0 epithelial, 1 ecm (static), 2 lumen, 3 nucleus, 4 static)
// answer:   ok time { px py pz mx my mz fx fy fz }*  (cell order, slot order)   |  bad-op | bad-config
//
// The executable is built once per compile-time configuration (hook H1: -DSIMUCELL3D_VERIF_CM/_DM); a
// request for another configuration is answered with bad-config.
#include "proto.hpp"
#include <omp.h>
#include <memory>
#include "global_configuration.hpp"
#include "custom_structures.hpp"
#include "cell.hpp"
#include "epithelial_cell.hpp"
#include "ecm_cell.hpp"
#include "lumen_cell.hpp"
#include "nucleus_cell.hpp"
#include "static_cell.hpp"
#include "time_integration.hpp"

// befriended by cell and node (see the friend lists in cell.hpp / node.hpp)
class cell_tester {
public:
    static void set_volume(cell_ptr c, double v){ c->volume_ = v; }
    static void free_queue(cell_ptr c, const std::vector<unsigned>& q){ c->free_node_queue_ = q; }
    static size_t nb_slots(cell_ptr c){ return c->node_lst_.size(); }
    static node& nd(cell_ptr c, size_t i){ return c->node_lst_[i]; }
    static void set_used(node& n, bool u){ n.is_used_ = u; }
    static void set_force(node& n, const vec3& f){ n.force_ = f; }
    static void set_momentum(node& n, const vec3& m){
        #if DYNAMIC_MODEL_INDEX == 0
            n.momentum_ = m;
        #endif
    }
    static vec3 momentum(const node& n){
        #if DYNAMIC_MODEL_INDEX == 0
            return n.momentum_;
        #else
            return vec3(0., 0., 0.);
        #endif
    }
    static bool couple(node& n, const std::vector<std::pair<unsigned, unsigned>>& cp){
        #if CONTACT_MODEL_INDEX == 1
            if(cp.size() > 1) return false;
            if(cp.empty()) n.coupled_node_ = std::nullopt; else n.coupled_node_ = cp[0];
        #elif CONTACT_MODEL_INDEX == 2
            n.coupled_nodes_map_.clear();
            for(const auto& p : cp){
                if(n.coupled_nodes_map_.count(p.first)) return false;
                n.coupled_nodes_map_[p.first] = std::make_pair(p.second, 0.0);
            }
        #endif
        return true;
    }
};

static std::string run(const std::vector<std::string>& w){
    size_t k = 1;
    auto more = [&](size_t n){ return k + n <= w.size(); };
    auto I = [&](){ return (long) std::stol(w[k++]); };
    auto D = [&](){ return vproto::from_hex(w[k++]); };
    if(!more(7)) return "bad-op";
    const long cm = I(), dm = I(), threads = I();
    if(cm != CONTACT_MODEL_INDEX || dm != DYNAMIC_MODEL_INDEX) return "bad-config";
    const double dt = D(), damping = D();
    const long nsteps = I(), ncells = I();
    if(nsteps < 0 || ncells < 0 || threads < 1 || threads > 16) return "bad-op";
    omp_set_num_threads((int) threads);

    std::vector<cell_ptr> cells;
    std::vector<std::vector<std::vector<std::pair<unsigned, unsigned>>>> allcps;
    for(long ci = 0; ci < ncells; ci++){
        if(!more(5)) return "bad-op";
        const long local_id = I(), kind = I();
        const double density = D(), volume = D();
        const long nn = I();
        if(nn < 1 || nn > 64 || local_id < 0) return "bad-op";
        auto ct = std::make_shared<cell_type_parameters>();
        ct->global_type_id_ = (short) kind;
        ct->mass_density_ = density;
        std::vector<double> pos; std::vector<vec3> mom, frc; std::vector<char> used;
        std::vector<std::vector<std::pair<unsigned, unsigned>>> cps;
        for(long ni = 0; ni < nn; ni++){
            if(!more(11)) return "bad-op";
            used.push_back(I() != 0);
            for(int q = 0; q < 3; q++) pos.push_back(D());
            const double a = D(), b = D(), c = D(); mom.emplace_back(a, b, c);
            const double d = D(), e = D(), f = D(); frc.emplace_back(d, e, f);
            const long kc = I();
            if(kc < 0 || !more(2 * (size_t) kc)) return "bad-op";
            std::vector<std::pair<unsigned, unsigned>> cp;
            for(long j = 0; j < kc; j++){ const long c2 = I(), n2 = I(); if(c2 < 0 || n2 < 0) return "bad-op"; cp.emplace_back((unsigned) c2, (unsigned) n2); }
            cps.push_back(cp);
        }
        std::vector<unsigned> faces;
        if(nn >= 4) faces = {0, 2, 1, 0, 1, 3, 1, 2, 3, 2, 0, 3};
        else if(nn == 3) faces = {0, 1, 2};
        cell_ptr c;
        switch(kind){        // same dispatch as simulation_initializer.cpp
            case 0: c = std::make_shared<epithelial_cell>(pos, faces, (unsigned) ci, ct); break;
            case 1: c = std::make_shared<ecm_cell>(pos, faces, (unsigned) ci, ct); break;
            case 2: c = std::make_shared<lumen_cell>(pos, faces, (unsigned) ci, ct); break;
            case 3: c = std::make_shared<nucleus_cell>(pos, faces, (unsigned) ci, ct); break;
            case 4: c = std::make_shared<static_cell>(pos, faces, (unsigned) ci, ct); break;
            default: return "bad-op";
        }
        c->set_local_id((unsigned) local_id);
        cell_tester::set_volume(c, volume);
        std::vector<unsigned> fq;
        for(long ni = 0; ni < nn; ni++){
            node& n = cell_tester::nd(c, ni);
            cell_tester::set_used(n, used[ni]);
            if(!used[ni]) fq.push_back((unsigned) ni);
            cell_tester::set_force(n, frc[ni]);
            cell_tester::set_momentum(n, mom[ni]);
            if(!cell_tester::couple(n, cps[ni])) return "bad-op";
        }
        cell_tester::free_queue(c, fq);
        allcps.push_back(cps);
        cells.push_back(c);
    }
    if(k != w.size()) return "bad-op";
    // couplings must name existing slots of ANOTHER cell (the code has only asserts there)
    for(size_t ci = 0; ci < cells.size(); ci++)
        for(const auto& cp : allcps[ci])
            for(const auto& [c2, n2] : cp)
                if(c2 >= cells.size() || c2 == ci || n2 >= cell_tester::nb_slots(cells[c2])) return "bad-op";

    global_simulation_parameters gp;
    gp.time_step_ = dt;
    gp.damping_coefficient_ = damping;
    time_integration_scheme integrator(gp, false);
    for(long s = 0; s < nsteps; s++) integrator.update_nodes_positions(cells);

    std::string out = "ok " + vproto::to_hex(integrator.get_simulation_time());
    auto put = [&](const vec3& v){ out += ' ' + vproto::to_hex(v.dx()) + ' ' + vproto::to_hex(v.dy()) + ' ' + vproto::to_hex(v.dz()); };
    for(cell_ptr c : cells)
        for(size_t ni = 0; ni < cell_tester::nb_slots(c); ni++){
            const node& n = cell_tester::nd(c, ni);
            put(n.pos()); put(cell_tester::momentum(n)); put(n.force());
        }
    return out;
}

int main(){
    std::ios::sync_with_stdio(false);
    std::string line;
    while(std::getline(std::cin, line)){
        auto w = vproto::split(line);
        if(w.empty() || w[0] != "integ"){ std::cout << "bad-op\n"; continue; }
        std::string r;
        try { r = run(w); } catch(const std::exception&){ r = "bad-op"; }
        std::cout << r << '\n';
    }
    return 0;
}
