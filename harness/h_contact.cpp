// C06 / C07 harness (shared): builds a tissue of REAL cells (all five cell classes) from a request line and
//   tissue : runs the real contact_model::run(), dumps the broad-phase structures (padded face boxes, global box,
//            grid dimensions, voxel contents, node voxels, presented pairs) through the friend classes, the per-node
//            contact forces / couplings after run(), and the same quantities obtained by applying the SAME real
//            per-pair rule to every (node, face) pair of different cells (all-pairs reference);
//   pairs  : calls the real per-pair rule (apply_contact_forces / resolve_contact) on single (node, face) pairs of
//            different cells from a prescribed coupling state and prints inputs (as the real objects hold them) and
//            the forces on the four nodes + the coupling created.
// The contact model is chosen at compile time (-DSIMUCELL3D_VERIF_CM=0|1|2, hook H1).
//
// request: <tissue|pairs> <threads> <prep> <l_min> <cut_adh> <cut_rep> <pre_n> <pre_f1> <pre_f2> <pre_f3> <max_pairs> <ncells>
//          ncells * ( <type 0..4> <cell id> <max_curv> <nft> nft*(<adh> <rep>) <nn> <nf> nn*(x y z) nf*(a b c facetype) )
//   doubles are 16-digit hex bit patterns, integers decimal.  prep = 1: node normals/curvatures are computed with
//   cell::compute_node_curvature_and_normals() as the solver does at the end of every iteration (models 1, 2);
//   prep = 0: they are what they are in the solver's first iteration (zero normal, zero curvature).
//   pre_* (pairs mode, models 1/2): squared distance of a coupling that already exists on the node / the three face
//   nodes before the rule is called (negative: not coupled).
#include "proto.hpp"
#include "cell.hpp"
#include "epithelial_cell.hpp"
#include "ecm_cell.hpp"
#include "lumen_cell.hpp"
#include "nucleus_cell.hpp"
#include "static_cell.hpp"
#include "contact_model_abstract.hpp"
#include "contact_node_face_via_spring.hpp"
#include "contact_node_node_via_coupling.hpp"
#include "contact_face_face_via_coupling.hpp"
#include <memory>
#include <cmath>
#include <limits>
#include <algorithm>
#include <omp.h>

#if CONTACT_MODEL_INDEX == 0
typedef contact_node_face_via_spring CM;
#elif CONTACT_MODEL_INDEX == 1
typedef contact_node_node_via_coupling CM;
#else
typedef contact_face_face_via_coupling CM;
#endif

using vproto::to_hex;

class uspg_4d_tester {
public:
    static const std::vector<std::forward_list<face*>>& voxels(const uspg_4d<face*>& g){ return g.voxel_lst_; }
};

class tester_contact_model_abstract {
public:
    static const std::vector<double>& aabbs(const contact_model_abstract& m){ return m.face_aabb_lst_; }
    static const std::vector<face*>& faces(const contact_model_abstract& m){ return m.face_lst_; }
    static const uspg_4d<face*>& grid(const contact_model_abstract& m){ return m.grid_; }
    static double padding(const contact_model_abstract& m){ return m.aabb_padding_; }
    static std::array<double, 6> global(const contact_model_abstract& m){
        return {m.global_min_x_, m.global_min_y_, m.global_min_z_, m.global_max_x_, m.global_max_y_, m.global_max_z_};
    }
};

struct node_state {      // coupling state of a node, printed canonically
    std::string text;
};

class cell_tester {
public:
    static std::vector<node>& nodes(cell& c){ return c.node_lst_; }
    static std::vector<face>& faces(cell& c){ return c.face_lst_; }
    static vec3& force(node& n){ return n.force_; }
    static vec3& pos(node& n){ return n.pos_; }
    static unsigned gid(const face& f){ return f.global_face_id_; }
    static unsigned lid(const face& f){ return f.local_face_id_; }
    static std::array<unsigned, 3> ids(const face& f){ return {f.n1_id_, f.n2_id_, f.n3_id_}; }
    static const vec3& fnormal(const face& f){ return f.normal_; }
    static double farea(const face& f){ return f.area_; }
    static void set_ftype(face& f, unsigned short t){ f.type_id_ = t; }
    // k released face slots in FRONT of the live ones, exactly as edge collapses leave slots behind until the next rebase
    // (slot unused + its index in the free queue; local face ids = slot indices; edge index rebuilt over the live faces)
    static void add_front_holes(cell& c, unsigned k){
        std::vector<face> nf;
        for(unsigned i = 0; i < k; i++){ face d = c.face_lst_[0]; d.is_used_ = false; nf.push_back(d); }
        nf.insert(nf.end(), c.face_lst_.begin(), c.face_lst_.end());
        c.face_lst_ = nf;
        for(size_t i = 0; i < c.face_lst_.size(); i++) c.face_lst_[i].local_face_id_ = (unsigned) i;
        for(unsigned i = 0; i < k; i++) c.free_face_queue_.push_back(i);
        c.edge_set_.clear();
        for(const face& f : c.face_lst_){
            if(!f.is_used_) continue;
            const unsigned a[3] = {f.n1_id_, f.n2_id_, f.n3_id_};
            for(int q = 0; q < 3; q++){
                auto it = c.edge_set_.emplace(a[q], a[(q + 1) % 3]).first;
                const_cast<edge&>(*it).add_face(f.local_face_id_);
            }
        }
    }
    static unsigned short ftype(const face& f){ return f.type_id_; }
#if CONTACT_MODEL_INDEX == 1 || CONTACT_MODEL_INDEX == 2
    static vec3 nnormal(const node& n){ return n.normal_; }
    static double curv(const node& n){ return n.curvature_; }
#else
    static vec3 nnormal(const node& n){ return vec3(0., 0., 0.); }
    static double curv(const node& n){ return 0.; }
#endif
    // reset the coupling state of a node to "not coupled" exactly as run() does
    static void reset_coupling(node& n){
#if CONTACT_MODEL_INDEX == 1
        n.coupled_node_ = std::nullopt;
        n.squared_distance_to_closest_node_ = std::numeric_limits<double>::max();
#elif CONTACT_MODEL_INDEX == 2
        n.coupled_nodes_map_.clear();
#endif
    }
    // a coupling that already exists towards the cell with id `other` (model 2 looks couplings up by get_id())
    // at squared distance d (d < 0: none)
    static void preset_coupling(node& n, unsigned other, double d){
        reset_coupling(n);
        if(d < 0.) return;
#if CONTACT_MODEL_INDEX == 1
        n.coupled_node_ = std::make_pair(other, 0u);
        n.squared_distance_to_closest_node_ = d;
#elif CONTACT_MODEL_INDEX == 2
        n.coupled_nodes_map_[other] = std::make_pair(0u, d);
#endif
    }
    static std::string coupling(const node& n){
        std::string s;
#if CONTACT_MODEL_INDEX == 1
        if(n.coupled_node_.has_value()){
            s = std::to_string(n.coupled_node_.value().first) + ":" + std::to_string(n.coupled_node_.value().second) + ":" + to_hex(n.squared_distance_to_closest_node_);
        } else s = "-";
#elif CONTACT_MODEL_INDEX == 2
        if(n.coupled_nodes_map_.empty()) s = "-";
        for(const auto& kv : n.coupled_nodes_map_){
            if(!s.empty()) s += ",";
            s += std::to_string(kv.first) + ":" + std::to_string(kv.second.first) + ":" + to_hex(kv.second.second);
        }
#else
        s = "-";
#endif
        return s;
    }
};

struct Req {
    std::string mode;
    int threads = 1, prep = 0;
    double lmin = 0, cadh = 0, crep = 0;
    double pre[4] = {-1, -1, -1, -1};
    long max_pairs = 0;
    std::vector<cell_ptr> cells;
    std::vector<std::vector<unsigned short>> ftypes;   // requested face type of every face
    std::vector<unsigned> holes;                       // released face slots in front of the live faces of every cell (prep bit 1)
};

static std::string h3(const vec3& v){ return to_hex(v.dx()) + " " + to_hex(v.dy()) + " " + to_hex(v.dz()); }

static bool parse(const std::vector<std::string>& w, Req& r){
    size_t k = 0;
    auto nextu = [&]() -> unsigned long { return std::stoul(w.at(k++)); };
    auto nextd = [&]() -> double { return vproto::from_hex(w.at(k++)); };
    r.mode = w.at(k++);
    r.threads = (int) nextu(); r.prep = (int) nextu();
    r.lmin = nextd(); r.cadh = nextd(); r.crep = nextd();
    for(int i = 0; i < 4; i++) r.pre[i] = nextd();
    r.max_pairs = (long) nextu();
    const unsigned long nc = nextu();
    for(unsigned long ci = 0; ci < nc; ci++){
        const unsigned type = (unsigned) nextu(), id = (unsigned) nextu();
        auto ct = std::make_shared<cell_type_parameters>();
        ct->name_ = "t" + std::to_string(type); ct->global_type_id_ = (short) type; ct->mass_density_ = 1000.;
        ct->surface_coupling_max_curvature_ = nextd();
        const unsigned long nft = nextu();
        for(unsigned long t = 0; t < nft; t++){
            face_type_parameters ft; ft.name_ = "f" + std::to_string(t); ft.face_type_global_id_ = (short) t;
            ft.adherence_strength_ = nextd(); ft.repulsion_strength_ = nextd();
            ct->add_face_type(ft);
        }
        const unsigned long nn = nextu(), nf = nextu();
        std::vector<double> pos(3 * nn);
        for(auto& x : pos) x = nextd();
        std::vector<unsigned> fid(3 * nf);
        std::vector<unsigned short> ftype(nf);
        for(unsigned long f = 0; f < nf; f++){
            fid[3*f] = (unsigned) nextu(); fid[3*f+1] = (unsigned) nextu(); fid[3*f+2] = (unsigned) nextu();
            ftype[f] = (unsigned short) nextu();
            if(fid[3*f] >= nn || fid[3*f+1] >= nn || fid[3*f+2] >= nn || ftype[f] >= nft) return false;
        }
        cell_ptr c;
        switch(type){      // as simulation_initializer::triangulate_surface
            case 0: c = std::make_shared<epithelial_cell>(pos, fid, id, ct); break;
            case 1: c = std::make_shared<ecm_cell>(pos, fid, id, ct); break;
            case 2: c = std::make_shared<lumen_cell>(pos, fid, id, ct); break;
            case 3: c = std::make_shared<nucleus_cell>(pos, fid, id, ct); break;
            case 4: c = std::make_shared<static_cell>(pos, fid, id, ct); break;
            default: return false;
        }
        c->set_local_id((unsigned) ci);
        c->initialize_cell_properties(true);
        if(cell_tester::faces(*c).size() != nf || cell_tester::nodes(*c).size() != nn) return false;
        // prep bit 1: the cell carries released face slots in front of its live faces (request face f = slot f + holes)
        const unsigned holes = (r.prep & 2) ? 1u + (unsigned) (ci % 3) : 0u;
        if(holes) cell_tester::add_front_holes(*c, holes);
        auto& F = cell_tester::faces(*c);
        for(unsigned long f = 0; f < nf; f++) cell_tester::set_ftype(F[f + holes], ftype[f]);
        r.cells.push_back(c);
        r.ftypes.push_back(ftype);
        r.holes.push_back(holes);
    }
    return k == w.size();
}

// what solver::run_iteration does to the cells before contact_model::run (mesh refinement apart), and what the
// previous iteration left behind (node normals and curvatures, models 1 and 2)
static void prelude(Req& r){
    for(size_t i = 0; i < r.cells.size(); i++){
        auto& F = cell_tester::faces(*r.cells[i]);
        for(size_t f = 0; f < r.ftypes[i].size(); f++) cell_tester::set_ftype(F[f + r.holes[i]], r.ftypes[i][f]);
        r.cells[i]->update_face_types();
    }
}
static void prep_normals(Req& r){
#if CONTACT_MODEL_INDEX == 1 || CONTACT_MODEL_INDEX == 2
    if(r.prep & 1) for(auto& c : r.cells) c->compute_node_curvature_and_normals();
#endif
}

static void zero_forces(Req& r){
    for(auto& c : r.cells) for(node& n : cell_tester::nodes(*c)) cell_tester::force(n) = vec3(0., 0., 0.);
}
static void reset_couplings(Req& r){
    for(auto& c : r.cells) for(node& n : cell_tester::nodes(*c)) cell_tester::reset_coupling(n);
}

static void call_rule(CM& cm, cell_ptr c1, cell_ptr c2, node& n, face* f){
#if CONTACT_MODEL_INDEX == 0
    cm.apply_contact_forces(c1, n, f);
#else
    cm.resolve_contact(c1, c2, n, f);
#endif
}

// the tests the three resolve loops make before they hand a (node, face) pair to the per-pair rule, the spatial
// part (voxel content, aabb check) left out
static bool node_gate(cell_ptr c1, const node& n){
    if(!n.is_used()) return false;
#if CONTACT_MODEL_INDEX == 0
    return true;
#else
    return cell_tester::curv(n) < c1->get_cell_type()->surface_coupling_max_curvature_;
#endif
}
static bool pair_gate(cell_ptr c1, cell_ptr c2, const node& n, const face* f){
    if(c1->get_id() == c2->get_id()) return false;
#if CONTACT_MODEL_INDEX == 0
    return true;
#else
    const double max_dot_product_repulsion = std::cos(90 * M_PI / 180.0);
    return cell_tester::nnormal(n).dot(cell_tester::fnormal(*f)) < max_dot_product_repulsion;
#endif
}

static void dump_forces(Req& r, std::string& out){
    for(auto& c : r.cells) for(node& n : cell_tester::nodes(*c)){ out += ' '; out += h3(n.force()); }
}
static void dump_couplings(Req& r, std::string& out){
    for(auto& c : r.cells) for(node& n : cell_tester::nodes(*c)){ out += ' '; out += cell_tester::coupling(n); }
}

static void run_tissue(Req& r){
    global_simulation_parameters sp;
    sp.min_edge_len_ = r.lmin; sp.contact_cutoff_adhesion_ = r.cadh; sp.contact_cutoff_repulsion_ = r.crep;
    CM cm(sp);
    omp_set_num_threads(r.threads);
    prelude(r); prep_normals(r);
    std::vector<std::vector<vec3>> snap;
    for(auto& c : r.cells){ snap.emplace_back(); for(node& n : cell_tester::nodes(*c)) snap.back().push_back(n.pos()); }
    zero_forces(r);
    cm.run(r.cells);
    std::string out = "ok";
    // ---- forces and couplings left by the real run()
    out += " F"; dump_forces(r, out);
    out += " K"; dump_couplings(r, out);
    // positions back to what run() saw (models 1 and 2 move coupled nodes at the end of run())
    for(size_t i = 0; i < r.cells.size(); i++){ auto& N = cell_tester::nodes(*r.cells[i]); for(size_t j = 0; j < N.size(); j++) cell_tester::pos(N[j]) = snap[i][j]; }
    // ---- broad-phase structures as run() left them
    const auto& fl = tester_contact_model_abstract::faces(cm);
    const auto& bb = tester_contact_model_abstract::aabbs(cm);
    const auto& g = tester_contact_model_abstract::grid(cm);
    const auto& vox = uspg_4d_tester::voxels(g);
    out += " B " + std::to_string(fl.size());
    for(double x : bb){ out += ' '; out += to_hex(x); }
    out += " G";
    for(double x : tester_contact_model_abstract::global(cm)){ out += ' '; out += to_hex(x); }
    const auto nb = g.get_nb_voxels(); const auto mn = g.get_min_corner();
    out += " D " + std::to_string(nb[0]) + " " + std::to_string(nb[1]) + " " + std::to_string(nb[2]) + " " + std::to_string(vox.size());
    out += " " + to_hex(mn[0]) + " " + to_hex(mn[1]) + " " + to_hex(mn[2]) + " " + to_hex(g.get_voxel_size()) + " " + to_hex(tester_contact_model_abstract::padding(cm));
    // owner cell (position in the list) of every face of face_lst_
    out += " O";
    for(face* f : fl){ out += ' '; out += std::to_string(f->get_owner_cell()->get_local_id()); }
    out += " C";
    size_t nonempty = 0;
    for(size_t v = 0; v < vox.size(); v++) if(!vox[v].empty()) nonempty++;
    out += ' ' + std::to_string(nonempty);
    for(size_t v = 0; v < vox.size(); v++){
        if(vox[v].empty()) continue;
        out += ' ' + std::to_string(v) + ":";
        bool first = true;
        for(face* f : vox[v]){ if(!first) out += ','; first = false; out += std::to_string(cell_tester::gid(*f)); }
    }
    // ---- voxel of every node (the computation of the three resolve loops) and the pairs that pass the aabb check
    out += " V";
    std::string pres = " P";
    for(auto& c : r.cells) for(node& n : cell_tester::nodes(*c)){
        if(!n.is_used()){ out += " -"; pres += " -"; continue; }
        const unsigned vx = std::floor((n.pos().dx() - mn[0]) / g.get_voxel_size());
        const unsigned vy = std::floor((n.pos().dy() - mn[1]) / g.get_voxel_size());
        const unsigned vz = std::floor((n.pos().dz() - mn[2]) / g.get_voxel_size());
        out += ' ' + std::to_string(vx) + ',' + std::to_string(vy) + ',' + std::to_string(vz);
        pres += ' ';
        bool any = false;
        if(vx < nb[0] && vy < nb[1] && vz < nb[2]){
            const size_t vid = g.get_voxel_index(vx, vy, vz);
            for(face* f : vox[vid]){
                if(c->get_id() != f->get_owner_cell()->get_id() && cm.aabb_intersection_check(cell_tester::gid(*f) * 6, n.pos())){
                    if(any) pres += ','; any = true; pres += std::to_string(cell_tester::gid(*f));
                }
            }
        } else { pres += "out-of-grid"; any = true; }
        if(!any) pres += "-";
    }
    out += pres;
    // ---- all-pairs reference: the same real rule on every (node, face) pair, faces in the order the voxel lists
    //      hold them (descending global id), same initial state as run()
    prelude(r);
    zero_forces(r); reset_couplings(r);
    omp_set_num_threads(1);
    for(auto& c1 : r.cells){
        for(node& n : cell_tester::nodes(*c1)){
            if(!node_gate(c1, n)) continue;
            for(size_t i = fl.size(); i-- > 0; ){
                face* f = fl[i];
                cell_ptr c2 = f->get_owner_cell();
                if(pair_gate(c1, c2, n, f)) call_rule(cm, c1, c2, n, f);
            }
        }
    }
    out += " R"; dump_forces(r, out);
    out += " RK"; dump_couplings(r, out);
    out += '\n';
    std::cout << out;
}

static void run_pairs(Req& r){
    global_simulation_parameters sp;
    sp.min_edge_len_ = r.lmin; sp.contact_cutoff_adhesion_ = r.cadh; sp.contact_cutoff_repulsion_ = r.crep;
    CM cm(sp);
    omp_set_num_threads(1);
    prelude(r); prep_normals(r);
    // count the pairs to choose a stride
    long total = 0;
    for(auto& c1 : r.cells) for(auto& c2 : r.cells) if(c1 != c2) total += (long) cell_tester::nodes(*c1).size() * (long) cell_tester::faces(*c2).size();
    const long stride = (r.max_pairs > 0 && total > r.max_pairs) ? (total + r.max_pairs - 1) / r.max_pairs : 1;
    std::string out = "ok";
    long idx = 0, emitted = 0;
    for(size_t i1 = 0; i1 < r.cells.size(); i1++) for(size_t i2 = 0; i2 < r.cells.size(); i2++){
        if(i1 == i2) continue;
        cell_ptr c1 = r.cells[i1], c2 = r.cells[i2];
        auto& N1 = cell_tester::nodes(*c1); auto& N2 = cell_tester::nodes(*c2); auto& F2 = cell_tester::faces(*c2);
        for(size_t ni = 0; ni < N1.size(); ni++) for(size_t fi = 0; fi < F2.size(); fi++){
            if((idx++ % stride) != 0) continue;
            node& n = N1[ni]; face& f = F2[fi];
            if(!n.is_used() || !f.is_used()) continue;
            const auto id = cell_tester::ids(f);
            node& a = N2[id[0]]; node& b = N2[id[1]]; node& c = N2[id[2]];
            // state before the call
            prelude(r); zero_forces(r); reset_couplings(r);
            cell_tester::preset_coupling(n, c2->get_id(), r.pre[0]);
            cell_tester::preset_coupling(a, c1->get_id(), r.pre[1]);
            cell_tester::preset_coupling(b, c1->get_id(), r.pre[2]);
            cell_tester::preset_coupling(c, c1->get_id(), r.pre[3]);
            const face_type_parameters ft_before = c2->get_face_type(cell_tester::lid(f));
            const std::string kn0 = cell_tester::coupling(n);
            call_rule(cm, c1, c2, n, &f);
            const face_type_parameters ft_after = c2->get_face_type(cell_tester::lid(f));
            // stray forces: on any node other than the four
            double stray = 0.;
            for(auto& cc : r.cells) for(node& m : cell_tester::nodes(*cc)){
                if(&m == &n || &m == &a || &m == &b || &m == &c) continue;
                stray += std::fabs(m.force().dx()) + std::fabs(m.force().dy()) + std::fabs(m.force().dz());
            }
            out += " ; " + std::to_string(i1) + " " + std::to_string(ni) + " " + std::to_string(i2) + " " + std::to_string(fi);
            out += " " + std::to_string(c1->get_cell_type_id()) + " " + std::to_string(c2->get_cell_type_id());
            out += " " + std::to_string(c1->get_id()) + " " + std::to_string(c2->get_id());
            out += " " + h3(n.pos()) + " " + h3(a.pos()) + " " + h3(b.pos()) + " " + h3(c.pos());
            out += " " + h3(cell_tester::fnormal(f)) + " " + to_hex(cell_tester::farea(f));
            out += " " + h3(cell_tester::nnormal(n)) + " " + h3(cell_tester::nnormal(a)) + " " + h3(cell_tester::nnormal(b)) + " " + h3(cell_tester::nnormal(c));
            out += " " + to_hex(cell_tester::curv(n)) + " " + to_hex(cell_tester::curv(a)) + " " + to_hex(cell_tester::curv(b)) + " " + to_hex(cell_tester::curv(c));
            out += " " + to_hex(c1->get_cell_type()->surface_coupling_max_curvature_) + " " + to_hex(c2->get_cell_type()->surface_coupling_max_curvature_);
            out += " " + to_hex(ft_before.adherence_strength_) + " " + to_hex(ft_before.repulsion_strength_);
            out += " " + to_hex(ft_after.adherence_strength_) + " " + to_hex(ft_after.repulsion_strength_);
            out += " " + h3(n.force()) + " " + h3(a.force()) + " " + h3(b.force()) + " " + h3(c.force());
            out += " " + to_hex(stray);
            out += " " + kn0 + " " + cell_tester::coupling(n) + " " + cell_tester::coupling(a) + " " + cell_tester::coupling(b) + " " + cell_tester::coupling(c);
            out += " " + std::to_string(id[0]) + " " + std::to_string(id[1]) + " " + std::to_string(id[2]);
            emitted++;
        }
    }
    out += '\n';
    std::cout << out;
}

int main(){
    std::ios::sync_with_stdio(false);
    std::string line;
    while(std::getline(std::cin, line)){
        auto w = vproto::split(line);
        if(w.empty()){ std::cout << "bad-op\n"; continue; }
        if(w[0] == "model"){ std::cout << "model " << CONTACT_MODEL_INDEX << " pm " << POLARIZATION_MODE_INDEX << "\n"; continue; }
        try {
            Req r;
            if(!parse(w, r)){ std::cout << "bad-op\n"; continue; }
            if(r.mode == "tissue") run_tissue(r);
            else if(r.mode == "pairs") run_pairs(r);
            else std::cout << "bad-op\n";
        }
        catch(const std::exception& e){ std::cout << "reject " << e.what() << "\n"; }
        std::cout.flush();
    }
    return 0;
}
