// C04 harness: runs the REAL solver (solver::solver + solver::run_iteration, the API used by main.cpp
// and the tests) on small populations and logs the cell-cycle state of every cell.
//
// request (one line, reals as 16-hex-digit doubles, integers decimal):
//   run <mesh:cube|sphere> <ncells> <nit> <dt> <lmin> <damping> <cutoff> <gap> <ntypes>
//       { <kind 0..4> <K> <Pmax> <P0> <gavg> <gstd> <dvavg> <dvstd> <minvol> <tension> <adherence> <repulsion> } * ntypes
//       { <type index> <scale> } * ncells
// answer: a block of lines
//   begin
//   type <idx> <kind> <K> <Pmax> <P0> <gavg> <gstd> <dvavg> <dvstd> <minvol>
//   born <id> <typeidx> <V at construction>                      (cell constructed: target volume == V, pressure 0)
//   init <id> <typeidx> <V> <Vt> <p> <g> <Vdiv> <ready>          (after solver::solver)
//   iter <n> <dt> <counter-lower-bound> pre <ids ...>
//   mid <id> <typeidx> <subject> <V- Vt- p-> <V> <Vt> <p> <g> <Vdiv>   (getters read right before (V- Vt- p-) and right after the
//                                                                 cell's own apply_internal_forces, in the order of the solver's
//                                                                 loop = list order, 1 thread)
//   post <ids ...>
//   state <id> <typeidx> <V> <Vt> <p> <g> <Vdiv> <ready>         (getters after run_iteration, survivors)
//   gone <id> <V> <Vt> <nnodes>                                  (cells of `pre` that are no longer listed; after clear_data)
//   halt stale-local-ids                                         (a removal left cell_lst_[i]->get_local_id() != i: the next
//                                                                 iteration would dereference through stale ids (C08 finding),
//                                                                 the scenario stops here)
//   end | error <text>
// Observation only: the probe subclasses call the unmodified base-class apply_internal_forces and then
// read the public getters; nothing of the solver is replaced.
#include "proto.hpp"
#include "solver.hpp"
#include "epithelial_cell.hpp"
#include "ecm_cell.hpp"
#include "lumen_cell.hpp"
#include "nucleus_cell.hpp"
#include "static_cell.hpp"
#include <unistd.h>
#include <fstream>
#include <set>
#include <map>

using vproto::to_hex; using vproto::from_hex;

struct midrec { unsigned id; const cell_type_parameters* ty; bool subject; double V0, Vt0, p0, V, Vt, p, g, vdiv, Vmesh; };
static std::vector<midrec> g_mid;

template<class B, bool SUBJECT>
struct probe : B {
    using B::B;
    void apply_internal_forces(const double dt) noexcept override {
        const double V0 = this->get_volume(), Vt0 = this->get_target_volume(), p0 = this->get_pressure();
        B::apply_internal_forces(dt);
        #pragma omp critical(c04probe)
        g_mid.push_back({this->get_id(), this->get_cell_type().get(), SUBJECT, V0, Vt0, p0, this->get_volume(), this->get_target_volume(),
                         this->get_pressure(), this->get_growth_rate(), this->get_division_volume(),
                         // the enclosed volume of the mesh as it is now (nothing moved since the force phase read it); a static ecm_cell skips
                         // the whole force phase (ecm_cell::apply_internal_forces), its stored volume is not used for anything
                         (std::is_base_of<ecm_cell, B>::value && this->is_static()) ? this->get_volume() : this->compute_volume()});
    }
    cell_ptr get_cell_same_type(const mesh& m) noexcept(false) override {
        return std::make_shared<probe<B, SUBJECT>>(m, this->cell_id_, this->cell_type_);
    }
};

static mesh cube_mesh(double side, double ox){
    static const double P[8][3] = {{0,0,0},{1,0,0},{1,0,1},{0,0,1},{0,1,0},{1,1,0},{0,1,1},{1,1,1}};
    static const unsigned F[12][3] = {{0,1,3},{2,3,1},{0,4,1},{5,1,4},{0,3,4},{6,4,3},{1,5,2},{7,2,5},{5,4,7},{6,7,4},{3,2,6},{7,6,2}};
    mesh m;
    for(int i = 0; i < 8; i++){ m.node_pos_lst.push_back(ox + P[i][0]*side); m.node_pos_lst.push_back(P[i][1]*side); m.node_pos_lst.push_back(P[i][2]*side); }
    for(int i = 0; i < 12; i++) m.face_point_ids.push_back({F[i][0], F[i][1], F[i][2]});
    return m;
}

// the first cell of /repo/data/input_meshes/sphere.vtk (already triangulated), scaled about its bounding-box corner
static mesh sphere_mesh(double scale, double ox){
    static mesh base; static bool loaded = false;
    if(!loaded){
        std::ifstream f(std::string(PROJECT_SOURCE_DIR) + "/data/input_meshes/sphere.vtk");
        std::string w; size_t n = 0;
        while(f >> w){ if(w == "POINTS"){ f >> n >> w; break; } }
        base.node_pos_lst.resize(3*n);
        for(size_t i = 0; i < 3*n; i++) f >> base.node_pos_lst[i];
        while(f >> w){ if(w == "CELLS"){ size_t a, b; f >> a >> b; break; } }
        size_t tot, nf; f >> tot >> nf;
        for(size_t i = 0; i < nf; i++){ unsigned k, a, b, c; f >> k >> a >> b >> c; base.face_point_ids.push_back({a,b,c}); }
        loaded = true;
    }
    mesh m = base;
    for(size_t i = 0; i < m.node_pos_lst.size(); i++){ m.node_pos_lst[i] *= scale; if(i % 3 == 0) m.node_pos_lst[i] += ox; }
    return m;
}

static cell_ptr make_cell(int kind, const mesh& m, unsigned id, cell_type_param_ptr t){
    switch(kind){
        case 0: return std::make_shared<probe<epithelial_cell, true>>(m, id, t);
        case 1: return std::make_shared<probe<ecm_cell, false>>(m, id, t);
        case 2: return std::make_shared<probe<lumen_cell, true>>(m, id, t);
        case 3: return std::make_shared<probe<nucleus_cell, true>>(m, id, t);
        default: return std::make_shared<probe<static_cell, true>>(m, id, t);
    }
}

static std::string ids_of(const std::vector<cell_ptr>& l){
    std::string s; for(auto& c: l){ s += ' '; s += std::to_string(c->get_id()); } return s;
}

static void run(const std::vector<std::string>& w){
    size_t k = 1;
    auto S = [&]() -> std::string { if(k >= w.size()) throw std::runtime_error("short request"); return w[k++]; };
    auto I = [&]() -> long { return std::stol(S()); };
    auto D = [&]() -> double { return from_hex(S()); };
    const std::string meshkind = S();
    const long ncells = I(), nit = I();
    global_simulation_parameters sp;
    sp.time_step_ = D(); sp.min_edge_len_ = D(); sp.damping_coefficient_ = D();
    const double cutoff = D(); const double gap = D();
    sp.contact_cutoff_adhesion_ = cutoff; sp.contact_cutoff_repulsion_ = cutoff;
    sp.simulation_duration_ = 1e30; sp.sampling_period_ = 1e30;
    sp.enable_edge_swap_operation_ = false; sp.perform_initial_triangulation_ = false;
    sp.output_folder_path_ = "/tmp/c04_h_cycle_" + std::to_string((long)getpid());
    sp.input_mesh_path_ = "";
    const long ntypes = I();
    if(ncells < 1 || ncells > 64 || ntypes < 1 || ntypes > 16 || nit < 0 || nit > 100000) throw std::runtime_error("bad counts");
    std::vector<cell_type_param_ptr> types; std::vector<int> kinds;
    std::map<const cell_type_parameters*, long> tidx;
    std::cout << "begin\n";
    for(long t = 0; t < ntypes; t++){
        auto ct = std::make_shared<cell_type_parameters>();
        const int kind = (int)I();
        ct->name_ = "t" + std::to_string(t); ct->global_type_id_ = (short)kind;
        ct->mass_density_ = 1e3;
        ct->bulk_modulus_ = D(); ct->max_pressure_ = D(); ct->initial_pressure_ = D();
        ct->avg_growth_rate_ = D(); ct->std_growth_rate_ = D();
        ct->avg_division_vol_ = D(); ct->std_division_vol_ = D();
        ct->min_vol_ = D();
        ct->target_isoperimetric_ratio_ = 150; ct->angle_regularization_factor_ = 0; ct->area_elasticity_modulus_ = 0;
        ct->surface_coupling_max_curvature_ = 8e5;
        const double tension = D(), adh = D(), rep = D();
        for(int f = 0; f < 3; f++){
            face_type_parameters ft; ft.name_ = "f" + std::to_string(f); ft.face_type_global_id_ = (short)f;
            ft.adherence_strength_ = adh; ft.repulsion_strength_ = rep; ft.surface_tension_ = tension; ft.bending_modulus_ = 0;
            ct->add_face_type(ft);
        }
        types.push_back(ct); kinds.push_back(kind); tidx[ct.get()] = t;
        std::cout << "type " << t << ' ' << kind << ' ' << to_hex(ct->bulk_modulus_) << ' ' << to_hex(ct->max_pressure_) << ' '
                  << to_hex(ct->initial_pressure_) << ' ' << to_hex(ct->avg_growth_rate_) << ' ' << to_hex(ct->std_growth_rate_) << ' '
                  << to_hex(ct->avg_division_vol_) << ' ' << to_hex(ct->std_division_vol_) << ' ' << to_hex(ct->min_vol_) << '\n';
    }
    std::vector<cell_ptr> cells;
    double ox = 0.;
    for(long c = 0; c < ncells; c++){
        const long t = I(); const double scale = D();
        if(t < 0 || t >= ntypes) throw std::runtime_error("bad type index");
        mesh m; double width;
        if(meshkind == "cube"){ width = 7e-6 * scale; m = cube_mesh(width, ox); }
        else if(meshkind == "sphere"){ width = 6e-6 * scale; m = sphere_mesh(scale, ox); }
        else throw std::runtime_error("bad mesh kind");
        ox += width + gap;
        cell_ptr cp = make_cell(kinds[t], m, (unsigned)c, types[t]);
        cp->initialize_cell_properties();
        std::cout << "born " << c << ' ' << t << ' ' << to_hex(cp->get_volume()) << '\n';
        cells.push_back(cp);
    }
    solver sv(sp, cells, /*nb_threads*/ 1, /*stats in string*/ true, /*verbose*/ false);
    auto dump = [&](const char* tag, const cell_ptr& c){
        std::cout << tag << ' ' << c->get_id() << ' ' << tidx[c->get_cell_type().get()] << ' ' << to_hex(c->get_volume()) << ' '
                  << to_hex(c->get_target_volume()) << ' ' << to_hex(c->get_pressure()) << ' ' << to_hex(c->get_growth_rate()) << ' '
                  << to_hex(c->get_division_volume()) << ' ' << (c->is_ready_to_divide() ? 1 : 0) << '\n';
    };
    for(auto& c: sv.get_cell_lst()) dump("init", c);
    unsigned counter = (unsigned)ncells;
    for(long it = 0; it < nit && !sv.get_cell_lst().empty(); it++){
        const std::vector<cell_ptr> pre = sv.get_cell_lst();      // keeps the cells alive for the `gone` lines
        std::cout << "iter " << it << ' ' << to_hex(sp.time_step_) << ' ' << counter << " pre" << ids_of(pre) << '\n';
        g_mid.clear();
        std::cout.flush();
        sv.run_iteration();
        std::set<unsigned> now;
        for(auto& c: sv.get_cell_lst()){ now.insert(c->get_id()); if(c->get_id() >= counter) counter = c->get_id() + 1; }
        for(const midrec& r: g_mid){
            if(r.id >= counter) counter = r.id + 1;
            std::cout << "mid " << r.id << ' ' << tidx[r.ty] << ' ' << (r.subject ? 1 : 0) << ' ' << to_hex(r.V0) << ' ' << to_hex(r.Vt0) << ' ' << to_hex(r.p0)
                      << ' ' << to_hex(r.V) << ' ' << to_hex(r.Vt) << ' '
                      << to_hex(r.p) << ' ' << to_hex(r.g) << ' ' << to_hex(r.vdiv) << '\n';
            // separate line (not part of the block the model replays): stored volume against the volume of the current mesh
            std::cout << "vchk " << r.id << ' ' << tidx[r.ty] << ' ' << to_hex(r.V) << ' ' << to_hex(r.Vmesh) << '\n';
        }
        std::cout << "post" << ids_of(sv.get_cell_lst()) << '\n';
        for(auto& c: sv.get_cell_lst()) dump("state", c);
        for(auto& c: pre) if(!now.count(c->get_id()))
            std::cout << "gone " << c->get_id() << ' ' << to_hex(c->get_volume()) << ' ' << to_hex(c->get_target_volume()) << ' ' << c->get_node_lst().size() << '\n';
        bool stale = false;
        for(size_t i = 0; i < sv.get_cell_lst().size(); i++) if(sv.get_cell_lst()[i]->get_local_id() != i) stale = true;
        if(stale){ std::cout << "halt stale-local-ids\n"; break; }
    }
    std::cout << "end\n";
    std::error_code ec; std::filesystem::remove_all(sp.output_folder_path_, ec);
}

int main(){
    std::string line;
    while(std::getline(std::cin, line)){
        auto w = vproto::split(line);
        if(w.empty()) continue;
        if(w[0] != "run"){ std::cout << "bad-op\n"; continue; }
        try{ run(w); }
        catch(const std::exception& e){ std::cout << "error " << e.what() << '\n'; }
        std::cout.flush();
    }
    return 0;
}
