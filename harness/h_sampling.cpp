// C15 harness (ThreadSanitizer build): calls poisson_sampling::uniform_sampling(cell, l_min) directly with several
// threads, the way the unit tests do (outside any enclosing parallel region).
#include "proto.hpp"
#include "mesh_reader.hpp"
#include "cell.hpp"
#include "poisson_sampling.hpp"
#include <omp.h>
int main(int argc, char** argv){
    if(argc < 4){ std::cerr << "usage: h_sampling mesh.vtk l_min threads\n"; return 2; }
    omp_set_num_threads(std::atoi(argv[3]));
    try{
        mesh_reader reader(argv[1], false);
        std::vector<mesh> meshes = reader.read();
        cell_ptr c = std::make_shared<cell>(meshes[0], 0, nullptr);
        c->initialize_cell_properties(true);
        const auto pts = poisson_sampling::uniform_sampling(c, std::atof(argv[2]));
        std::cout << "points " << pts.size() << "\n";
    }catch(const std::exception& e){ std::cout << "EXC " << e.what() << "\n"; return 3; }
    return 0;
}
