// C15 harness: parallel phases in isolation.
//   h_par refine <N> <bad index or -1> <threads> <level>   : N icospheres, the one at <bad> replaced by a tiny tetrahedron whose
//        refinement throws; calls the real local_mesh_refiner::refine_meshes; prints "RESULT ok" / "RESULT exc <type>"
//        and one digest line per cell "D <i> <used nodes> <live faces> <xor of the position bits>".
//   h_par write <N> <threads> <dir or unwritable path>      : mesh_writer::write of N cells; "RESULT ok" / "RESULT exc <type>"
#include "proto.hpp"
#include "cell.hpp"
#include "local_mesh_refiner.hpp"
#include "mesh_writer.hpp"
#include "custom_exception.hpp"
#include <omp.h>
#include <cmath>
#include <map>

class cell_tester {
public:
    static void digest(cell_ptr c, size_t i){
        uint64_t x = 0; size_t nn = 0, nf = 0;
        for(const node& n : c->node_lst_){ if(n.is_used_){ nn++; uint64_t u; double d[3] = {n.pos_.dx(), n.pos_.dy(), n.pos_.dz()};
            for(int k = 0; k < 3; k++){ std::memcpy(&u, &d[k], 8); x = (x * 1099511628211ULL) ^ u; } } }
        for(const face& f : c->face_lst_){ if(f.is_used_){ nf++; x = (x * 1099511628211ULL) ^ (uint64_t)(f.n1_id_ * 73856093u ^ f.n2_id_ * 19349663u ^ f.n3_id_ * 83492791u); } }
        std::cout << "D " << i << ' ' << nn << ' ' << nf << ' ' << std::hex << x << std::dec << '\n';
    }
};

static void icosphere(int level, double r, double cx, std::vector<double>& pos, std::vector<unsigned>& tri){
    const double t = (1 + std::sqrt(5.0)) / 2;
    std::vector<std::array<double,3>> P = {{-1,t,0},{1,t,0},{-1,-t,0},{1,-t,0},{0,-1,t},{0,1,t},{0,-1,-t},{0,1,-t},{t,0,-1},{t,0,1},{-t,0,-1},{-t,0,1}};
    std::vector<std::array<unsigned,3>> T = {{0,11,5},{0,5,1},{0,1,7},{0,7,10},{0,10,11},{1,5,9},{5,11,4},{11,10,2},{10,7,6},{7,1,8},{3,9,4},{3,4,2},{3,2,6},{3,6,8},{3,8,9},{4,9,5},{2,4,11},{6,2,10},{8,6,7},{9,8,1}};
    auto norm = [](std::array<double,3>& p){ double n = std::sqrt(p[0]*p[0]+p[1]*p[1]+p[2]*p[2]); for(auto& x : p) x /= n; };
    for(auto& p : P) norm(p);
    for(int l = 0; l < level; l++){
        std::map<std::pair<unsigned,unsigned>, unsigned> mid; std::vector<std::array<unsigned,3>> T2;
        auto m = [&](unsigned a, unsigned b){ auto k = std::make_pair(std::min(a,b), std::max(a,b)); auto it = mid.find(k); if(it != mid.end()) return it->second;
            std::array<double,3> q = {(P[a][0]+P[b][0])/2, (P[a][1]+P[b][1])/2, (P[a][2]+P[b][2])/2}; norm(q); P.push_back(q); mid[k] = P.size()-1; return (unsigned)(P.size()-1); };
        for(auto& f : T){ unsigned ab = m(f[0],f[1]), bc = m(f[1],f[2]), ca = m(f[2],f[0]);
            T2.push_back({f[0],ab,ca}); T2.push_back({f[1],bc,ab}); T2.push_back({f[2],ca,bc}); T2.push_back({ab,bc,ca}); }
        T = T2;
    }
    for(auto& p : P){ pos.push_back(cx + r*p[0]); pos.push_back(r*p[1]); pos.push_back(r*p[2]); }
    for(auto& f : T){ tri.push_back(f[0]); tri.push_back(f[1]); tri.push_back(f[2]); }
}

static std::string exc_name(const std::exception& e){
    if(dynamic_cast<const mesh_integrity_exception*>(&e)) return "mesh_integrity";
    if(dynamic_cast<const mesh_writer_exception*>(&e)) return "mesh_writer";
    if(dynamic_cast<const std::bad_optional_access*>(&e)) return "bad_optional_access";
    return std::string("other:") + e.what();
}

int main(int argc, char** argv){
    if(argc < 5){ std::cerr << "usage\n"; return 2; }
    const std::string mode = argv[1];
    const int N = std::atoi(argv[2]);
    const double lmin = 7.5e-7, r = 5e-6;
    if(mode == "refine"){
        const int bad = std::atoi(argv[3]); const int threads = std::atoi(argv[4]); const int level = argc > 5 ? std::atoi(argv[5]) : 2;
        omp_set_num_threads(threads);
        std::vector<cell_ptr> cells;
        for(int i = 0; i < N; i++){
            std::vector<double> pos; std::vector<unsigned> tri;
            if(i == bad){
                // a two-triangle "pillow" with long edges: the first edge split creates an edge with four faces,
                // add_face throws mesh_integrity_exception
                const double L = 40 * lmin, x0 = i * 4e-5;
                pos = {x0, 0, 0,  x0 + L, 0, 0,  x0, L, 0};
                tri = {0, 1, 2,  0, 2, 1};
            }
            else icosphere(level, r * (1.0 + 0.13 * (i % 5)), i * 4e-5, pos, tri);
            cell_ptr c = std::make_shared<cell>(pos, tri, (unsigned) i, nullptr);
            c->initialize_cell_properties(true);
            cells.push_back(c);
        }
        local_mesh_refiner lmr(lmin, 3 * lmin, false);
        try{ lmr.refine_meshes(cells); std::cout << "RESULT ok\n"; }
        catch(const std::exception& e){ std::cout << "RESULT exc " << exc_name(e) << "\n"; }
        catch(...){ std::cout << "RESULT exc non-std\n"; }
        for(int i = 0; i < N; i++) if(i != bad) cell_tester::digest(cells[i], i);
    }
    else if(mode == "write"){
        const int threads = std::atoi(argv[3]); const std::string dir = argv[4];
        omp_set_num_threads(threads);
        std::vector<cell_ptr> cells;
        for(int i = 0; i < N; i++){
            std::vector<double> pos; std::vector<unsigned> tri; icosphere(1, r, i * 4e-5, pos, tri);
            cell_ptr c = std::make_shared<cell>(pos, tri, (unsigned) i, nullptr);
            c->initialize_cell_properties(true);
            cells.push_back(c);
        }
        try{ mesh_writer::write(dir + "/cell.vtk", dir + "/face.vtk", cells); std::cout << "RESULT ok\n"; }
        catch(const std::exception& e){ std::cout << "RESULT exc " << exc_name(e) << "\n"; }
        catch(...){ std::cout << "RESULT exc non-std\n"; }
    }
    std::cout << "END\n";
    return 0;
}
