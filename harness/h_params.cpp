// C18 harness: feeds XML parameter files to the REAL parameter_reader / simulation_initializer / solver.
//
//   read <path> ...   parameter_reader(path); read_numerical_parameters(); read_biomechanical_parameters()
//                     (the order simulation_initializer uses) -> every member of every structure, or the exception
//                       ok N f=v ... ; C f=v ... ; F f=v ... ; F ... ; C ...      v = d<16 hex> | i<int> | b0|b1 | s<hex>
//                       exc <class> x<hex of what()>
//   dom <path>        the element tree as tinyxml2 parsed it, WITHOUT going through parameter_reader, in the wire
//                     encoding of the model driver (N k {tag text}^k C n { L k {..} F m { S k {..} }^m }^n)
//   run <path>        simulation_initializer(path) + solver + run(): iterations, files written, final time, and the
//                     parameter values as they sit in the solver and in the first cell's type (the "govern the run" part)
#include "proto.hpp"
#include "parameter_reader.hpp"
#include "simulation_initializer.hpp"
#include "solver.hpp"
#include <filesystem>
#include <typeinfo>

using vproto::to_hex;

static std::string hexs(const std::string& s){
    static const char* d = "0123456789abcdef";
    std::string o; o.reserve(2 * s.size());
    for(unsigned char c : s){ o.push_back(d[c >> 4]); o.push_back(d[c & 15]); }
    return o;
}
static std::string fd(const char* n, double v){ return std::string(" ") + n + "=d" + to_hex(v); }
static std::string fi(const char* n, long v){ return std::string(" ") + n + "=i" + std::to_string(v); }
static std::string fb(const char* n, bool v){ return std::string(" ") + n + (v ? "=b1" : "=b0"); }
static std::string fs(const char* n, const std::string& v){ return std::string(" ") + n + "=s" + hexs(v); }

static std::string dump_num(const global_simulation_parameters& g){
    return fs("input_mesh_path_", g.input_mesh_path_) + fs("output_folder_path_", g.output_folder_path_)
         + fd("damping_coefficient_", g.damping_coefficient_) + fb("perform_initial_triangulation_", g.perform_initial_triangulation_)
         + fd("simulation_duration_", g.simulation_duration_) + fd("time_step_", g.time_step_)
         + fd("sampling_period_", g.sampling_period_) + fd("min_edge_len_", g.min_edge_len_)
         + fd("contact_cutoff_adhesion_", g.contact_cutoff_adhesion_) + fd("contact_cutoff_repulsion_", g.contact_cutoff_repulsion_)
         + fb("enable_edge_swap_operation_", g.enable_edge_swap_operation_);
}
static std::string dump_cell(const cell_type_parameters& c){
    return fs("name_", c.name_) + fi("global_type_id_", c.global_type_id_) + fd("mass_density_", c.mass_density_)
         + fd("bulk_modulus_", c.bulk_modulus_) + fd("max_pressure_", c.max_pressure_)
         + fd("area_elasticity_modulus_", c.area_elasticity_modulus_) + fd("avg_division_vol_", c.avg_division_vol_)
         + fd("std_division_vol_", c.std_division_vol_) + fd("avg_growth_rate_", c.avg_growth_rate_)
         + fd("std_growth_rate_", c.std_growth_rate_) + fd("target_isoperimetric_ratio_", c.target_isoperimetric_ratio_)
         + fd("angle_regularization_factor_", c.angle_regularization_factor_) + fd("min_vol_", c.min_vol_)
         + fd("surface_coupling_max_curvature_", c.surface_coupling_max_curvature_)
         + fd("initial_pressure_", c.initial_pressure_) + fi("additional_parameters_", (long) c.additional_parameters_.size());
}
static std::string dump_face(const face_type_parameters& f){
    return fs("name_", f.name_) + fi("face_type_global_id_", f.face_type_global_id_) + fd("surface_tension_", f.surface_tension_)
         + fd("adherence_strength_", f.adherence_strength_) + fd("repulsion_strength_", f.repulsion_strength_)
         + fd("bending_modulus_", f.bending_modulus_);
}
static std::string dump_types(const std::vector<std::shared_ptr<cell_type_parameters>>& cs){
    std::string o;
    for(const auto& c : cs){
        o += " ; C" + dump_cell(*c);
        for(const auto& f : c->face_types_) o += " ; F" + dump_face(f);
    }
    return o;
}

static std::string exc_line(const std::exception& e){
    std::string cls = "std::exception";
    if(dynamic_cast<const parameter_reader_exception*>(&e)) cls = "parameter_reader_exception";
    else if(dynamic_cast<const intialization_exception*>(&e)) cls = "intialization_exception";
    else if(dynamic_cast<const mesh_reader_exception*>(&e)) cls = "mesh_reader_exception";
    else if(dynamic_cast<const std::invalid_argument*>(&e)) cls = "std::invalid_argument";
    else if(dynamic_cast<const std::out_of_range*>(&e)) cls = "std::out_of_range";
    else if(dynamic_cast<const std::logic_error*>(&e)) cls = "std::logic_error";
    return "exc " + cls + " x" + hexs(e.what());
}

// ------------------------------------------------------------------------------------------ dom
static std::string leafs(const tinyxml2::XMLElement* sec, const char* skip){
    std::string o; int k = 0;
    for(const tinyxml2::XMLElement* e = sec->FirstChildElement(); e != nullptr; e = e->NextSiblingElement()){
        if(skip && std::string(e->Name()) == skip) continue;
        const char* t = e->GetText();
        o += std::string(" x") + hexs(e->Name()) + " x" + hexs(t ? t : "");
        k++;
    }
    return std::to_string(k) + o;
}
static std::string dom(const std::string& path){
    tinyxml2::XMLDocument doc;
    if(doc.LoadFile(path.c_str()) != tinyxml2::XML_SUCCESS) return "exc load";
    std::string o = "N ";
    const tinyxml2::XMLElement* num = doc.FirstChildElement("numerical_parameters");
    o += num ? leafs(num, nullptr) : std::string("-1");
    const tinyxml2::XMLElement* root = doc.FirstChildElement("cell_types");
    if(!root) return o + " C -1";
    int n = 0; std::string cells;
    for(const tinyxml2::XMLElement* c = root->FirstChildElement("cell_type"); c; c = c->NextSiblingElement("cell_type")){
        n++;
        cells += " L " + leafs(c, "face_types");
        const tinyxml2::XMLElement* fr = c->FirstChildElement("face_types");
        if(!fr){ cells += " F -1"; continue; }
        int m = 0; std::string faces;
        for(const tinyxml2::XMLElement* f = fr->FirstChildElement("face_type"); f; f = f->NextSiblingElement("face_type")){
            m++; faces += " S " + leafs(f, nullptr);
        }
        cells += " F " + std::to_string(m) + faces;
    }
    return o + " C " + std::to_string(n) + cells;
}

// ------------------------------------------------------------------------------------------ run
class probe_solver : public solver{
    public:
        using solver::solver;
        unsigned iterations() const {return iteration_;}
        unsigned file_number() const {return file_number_;}
        double time() const {return time_integrator_ptr_->get_simulation_time();}
};
static std::string run(const std::string& path){
    simulation_initializer init(path, false);
    const global_simulation_parameters g = init.get_simulation_parameters();
    std::vector<cell_ptr> cells = init.get_cell_lst();
    std::string o = "ran";
    // what reached the cells
    if(!cells.empty() && cells[0]->get_cell_type() != nullptr){
        o += " ; C" + dump_cell(*cells[0]->get_cell_type());
        for(const auto& f : cells[0]->get_cell_type()->face_types_) o += " ; F" + dump_face(f);
    }
    probe_solver s(g, cells, 1, true, false);
    o += " ; N" + dump_num(s.get_sim_parameters());
    s.run();
    size_t files = 0;
    const std::string dir = g.output_folder_path_ + "/cell_data";
    if(std::filesystem::exists(dir)) for(const auto& p : std::filesystem::directory_iterator(dir)){ (void) p; files++; }
    o += " ; R" + fi("iterations", s.iterations()) + fi("last_file", s.file_number()) + fi("files", (long) files)
       + fd("time", s.time()) + fi("cells", (long) s.get_cell_lst().size());
    return o;
}

int main(){
    std::ios::sync_with_stdio(false);
    std::string line;
    while(std::getline(std::cin, line)){
        auto w = vproto::split(line);
        if(w.size() < 2){ std::cout << "bad-op" << std::endl; continue; }
        try{
            if(w[0] == "read"){
                parameter_reader reader(w[1]);
                const global_simulation_parameters g = reader.read_numerical_parameters();
                const auto cs = reader.read_biomechanical_parameters();
                std::cout << "ok N" << dump_num(g) << dump_types(cs) << std::endl;
            }
            else if(w[0] == "dom") std::cout << dom(w[1]) << std::endl;
            else if(w[0] == "run") std::cout << run(w[1]) << std::endl;
            else std::cout << "bad-op" << std::endl;
        }
        catch(const std::exception& e){ std::cout << exc_line(e) << std::endl; }
    }
    return 0;
}
