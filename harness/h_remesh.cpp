// C01 / C11 harness: builds a real `cell` from the request lines, applies node displacements,
// real refinement passes, single split / merge / swap operations and rebase, and dumps the complete
// bookkeeping state in the format of lean/Driver/C01.lean.
#include "proto.hpp"
#include "cell.hpp"
#include "local_mesh_refiner.hpp"
#include "custom_exception.hpp"
#include <optional>

using vproto::to_hex; using vproto::from_hex;

class cell_tester {
public:
    static std::string hv(const vec3& v){ return to_hex(v.dx()) + " " + to_hex(v.dy()) + " " + to_hex(v.dz()); }
    static std::string dump(cell_ptr c){
        std::ostringstream o;
        o << "N " << c->node_lst_.size();
        for(const node& n : c->node_lst_){
            o << " ; " << (n.is_used_ ? 1 : 0) << ' ' << hv(n.pos_) << ' ' <<
            #if DYNAMIC_MODEL_INDEX == 0
                hv(n.momentum_);
            #else
                hv(vec3(0,0,0));
            #endif
        }
        o << " | F " << c->face_lst_.size();
        for(const face& f : c->face_lst_){
            if(f.is_used_) o << " ; 1 " << f.n1_id_ << ' ' << f.n2_id_ << ' ' << f.n3_id_ << ' ' << f.type_id_ << ' ' << hv(f.normal_) << ' ' << to_hex(f.area_);
            else o << " ; 0";
        }
        o << " | E " << c->edge_set_.size();
        for(const edge& e : c->edge_set_){
            o << " ; " << e.n1() << ' ' << e.n2() << ' ';
            // edge::f1()/f2() are noexcept and call optional::value(): never call them on an empty slot
            if(e.is_manifold()){ o << e.f1() << ' ' << e.f2(); }
            else{
                std::optional<unsigned> only;
                for(unsigned k = 0; k < c->face_lst_.size(); k++){ if(e.has_face(k)){ only = k; break; } }
                if(only) o << only.value() << " -"; else o << "- -";
            }
        }
        o << " | FN";
        for(unsigned i : c->free_node_queue_) o << ' ' << i;
        // the model prints an empty list as "FN " + "" : keep the same spacing
        if(c->free_node_queue_.empty()) o << ' ';
        o << " | FF";
        for(unsigned i : c->free_face_queue_) o << ' ' << i;
        if(c->free_face_queue_.empty()) o << ' ';
        return o.str();
    }
    static void set_pos(cell_ptr c, unsigned i, const vec3& p){ c->node_lst_[i].pos_ = p; }
    static void set_mom(cell_ptr c, unsigned i, const vec3& p){
        #if DYNAMIC_MODEL_INDEX == 0
            c->node_lst_[i].momentum_ = p;
        #endif
    }
    static void set_typ(cell_ptr c, unsigned f, unsigned t){ c->face_lst_[f].type_id_ = (unsigned short) t; }
    static size_t nb_nodes(cell_ptr c){ return c->node_lst_.size(); }
    static size_t nb_faces(cell_ptr c){ return c->face_lst_.size(); }
};

static std::string exc_name(const std::exception& e){
    if(dynamic_cast<const mesh_integrity_exception*>(&e)) return "integrity";
    if(dynamic_cast<const std::bad_optional_access*>(&e)) return "badopt";
    if(dynamic_cast<const initial_triangulation_exception*>(&e)) return "initial_triangulation";
    return std::string("other:") + e.what();
}

int main(){
    std::ios::sync_with_stdio(false);
    std::string line;
    std::vector<double> pos; std::vector<unsigned> tris;
    cell_ptr c;
    while(std::getline(std::cin, line)){
        auto w = vproto::split(line);
        if(w.empty()){ std::cout << "bad-op\n" << std::flush; continue; }
        try{
            if(w[0] == "cell"){ pos.clear(); tris.clear(); c.reset(); std::cout << "ok\n"; }
            else if(w[0] == "n" && w.size() == 4){ for(int i = 1; i < 4; i++) pos.push_back(from_hex(w[i])); std::cout << "ok\n"; }
            else if(w[0] == "t" && w.size() == 4){ for(int i = 1; i < 4; i++) tris.push_back((unsigned) std::stoul(w[i])); std::cout << "ok\n"; }
            else if(w[0] == "init"){
                c = std::make_shared<cell>(pos, tris, 0u, nullptr);
                c->initialize_cell_properties(true);
                std::cout << "ok\n";
            }
            else if(w[0] == "dump"){ std::cout << (c ? cell_tester::dump(c) : std::string("nocell")) << "\n"; }
            else if(w[0] == "pos" && w.size() == 5 && c && std::stoul(w[1]) < cell_tester::nb_nodes(c)){
                cell_tester::set_pos(c, (unsigned) std::stoul(w[1]), vec3(from_hex(w[2]), from_hex(w[3]), from_hex(w[4]))); std::cout << "ok\n"; }
            else if(w[0] == "mom" && w.size() == 5 && c && std::stoul(w[1]) < cell_tester::nb_nodes(c)){
                cell_tester::set_mom(c, (unsigned) std::stoul(w[1]), vec3(from_hex(w[2]), from_hex(w[3]), from_hex(w[4]))); std::cout << "ok\n"; }
            else if(w[0] == "typ" && w.size() == 3 && c && std::stoul(w[1]) < cell_tester::nb_faces(c)){
                cell_tester::set_typ(c, (unsigned) std::stoul(w[1]), (unsigned) std::stoul(w[2])); std::cout << "ok\n"; }
            else if(w[0] == "geom" && c){ c->update_all_face_normals_and_areas(); std::cout << "ok\n"; }
            else if(w[0] == "refine" && w.size() == 4 && c){
                local_mesh_refiner lmr(from_hex(w[1]), from_hex(w[2]), w[3] == "1");
                try{ lmr.refine_mesh(c); std::cout << "returned\n"; }
                catch(const std::exception& e){ std::cout << "threw " << exc_name(e) << "\n"; }
            }
            else if((w[0] == "split" || w[0] == "merge" || w[0] == "swap" || w[0] == "canmerge") && w.size() == 3 && c){
                auto eo = c->get_edge((unsigned) std::stoul(w[1]), (unsigned) std::stoul(w[2]));
                if(!eo.has_value()){ std::cout << "noedge\n" << std::flush; continue; }
                edge e = eo.value();
                local_mesh_refiner lmr(1.0, 2.0, true);
                edge_set chk;
                try{
                    if(w[0] == "split") lmr.split_edge(e, c, chk);
                    else if(w[0] == "merge") lmr.merge_edge(e, c, chk);
                    else if(w[0] == "swap") lmr.swap_edge(e, c);
                    else { std::cout << (lmr.can_be_merged(e, c) ? "true" : "false") << "\n" << std::flush; continue; }
                    std::cout << "ok\n";
                }catch(const std::exception& ex){ std::cout << "err " << exc_name(ex) << "\n"; }
            }
            else if(w[0] == "scores" && c){
                // the real get_triangle_score of every used face: quality score and the longest edge it names
                local_mesh_refiner lmr(1.0, 2.0, true);
                std::ostringstream o; o << "S";
                const auto& fl = c->get_face_lst();
                for(size_t k = 0; k < fl.size(); k++){
                    if(!fl[k].is_used()) continue;
                    auto [sc, le] = lmr.get_triangle_score(c, fl[k]);
                    o << " ; " << k << ' ' << to_hex(sc) << ' ' << le.n1() << ' ' << le.n2();
                }
                std::cout << o.str() << "\n";
            }
            else if(w[0] == "rebase" && c){
                try{ c->rebase(); std::cout << "ok\n"; }
                catch(const std::exception& ex){ std::cout << "err " << exc_name(ex) << "\n"; }
            }
            else std::cout << "bad-op\n";
        }catch(const std::exception& ex){ std::cout << "err " << exc_name(ex) << "\n"; }
        std::cout.flush();
    }
    return 0;
}
