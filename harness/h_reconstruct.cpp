// C13 harness: the REAL initial surface reconstruction of /repo, stage by stage, in-process.
//
//   gate <nn> <nf> <3*nn hex doubles> <3*nf node ids>
//        the acceptance gate: cell(mesh, 0) + initialize_cell_properties(true)  (what simulation_initializer runs on
//        whatever the reconstruction returned)
//        -> ok <nf> <3*nf node ids after orientation> <area> <volume> | err integrity | err notmanifold | err other
//   coarse <nn> <nf> <3*nn hex> <faces: k i1 … ik, nf times>
//        initial_triangulation::coarse_triangulation(mesh)          -> mesh <nn'> <nf'> <3*nn' hex> <3*nf' ids>
//   recon <l_min hex> <nn> <nf> <3*nn hex> <faces …>
//        initial_triangulation::triangulate_surface(l_min, 3*l_min, mesh, 0) (clock-seeded; whatever comes back is
//        returned so that BOTH gates can be run on it)              -> mesh … | exc <class>
//   cloud <l_min hex> <nn> <nf> <3*nn hex> <faces …>
//        coarse_triangulation + convert_mesh_to_cell + poisson_sampling::compute_poisson_point_cloud(l_min, cell)
//                                                                   -> pts <n uniform> <n> <3*n hex> | exc <class>
//   uniform <l_min hex> <nn> <nf> <3*nn hex> <faces …>
//        the uniform cloud of poisson_sampling::uniform_sampling    -> pts <n> <n> <3*n hex>
//   dart <l_min hex> <voxel hex> <6 hex box> <n> <3*n hex>
//        two uspg_4d<oriented_point> of the given voxel size on the box, the points placed in the first one in the given
//        order, poisson_sampling::poisson_disk_sampling(grid_1, grid_2, l_min)
//                                                                   -> pts <n> <m> <3*m hex> (order of get_grid_content)
//   init <tri 0|1> <l_min hex> <cell type id> <nn> <nf> <3*nn hex> <faces …>
//        the mesh is written to a .vtk file and simulation_initializer(params, types, false) is constructed on it exactly as
//        the python bindings / main do; the messages "will be restarted" on stderr are counted
//        -> ok <failed tries> <nf'> <3*nf' ids> <nn'> <3*nn' hex> <volume> | exc <class> <failed tries>
#include "proto.hpp"
#include <cxxabi.h>
#include <typeinfo>
#include <unistd.h>
#include <fcntl.h>
#include <fstream>
#include <cstdlib>

#include "cell.hpp"
#include "custom_exception.hpp"
#include "custom_structures.hpp"
#include "initial_triangulation.hpp"
#include "poisson_sampling.hpp"
#include "simulation_initializer.hpp"

static std::string demangle(const char* n){
    int st = 0;
    char* d = abi::__cxa_demangle(n, nullptr, nullptr, &st);
    std::string s = (st == 0 && d) ? d : n;
    free(d);
    return s;
}

// parses "<nn> <nf> <3*nn hex> <faces>" starting at w[at]; polygonal = faces carry their size
static bool parse_mesh(const std::vector<std::string>& w, size_t at, bool polygonal, mesh& m){
    if(w.size() < at + 2) return false;
    const size_t nn = std::stoul(w[at]), nf = std::stoul(w[at + 1]);
    size_t p = at + 2;
    if(nn == 0 || nf == 0 || w.size() < p + 3 * nn) return false;
    m.node_pos_lst.resize(3 * nn);
    for(size_t i = 0; i < 3 * nn; i++) m.node_pos_lst[i] = vproto::from_hex(w[p + i]);
    p += 3 * nn;
    for(size_t k = 0; k < nf; k++){
        size_t sz = 3;
        if(polygonal){ if(p >= w.size()) return false; sz = std::stoul(w[p++]); }
        if(p + sz > w.size()) return false;
        std::vector<unsigned> f(sz);
        for(size_t j = 0; j < sz; j++){ f[j] = (unsigned) std::stoul(w[p + j]); if(f[j] >= nn) return false; }
        p += sz;
        m.face_point_ids.push_back(f);
    }
    return p == w.size();
}

static std::string dump_mesh(const mesh& m){
    std::ostringstream o;
    o << "mesh " << m.node_pos_lst.size() / 3 << ' ' << m.face_point_ids.size();
    for(double x : m.node_pos_lst) o << ' ' << vproto::to_hex(x);
    for(const auto& f : m.face_point_ids){ for(unsigned i : f) o << ' ' << i; }
    return o.str();
}

static std::string dump_points(size_t n_uniform, const std::vector<oriented_point>& pts){
    std::ostringstream o;
    o << "pts " << n_uniform << ' ' << pts.size();
    for(const auto& p : pts) o << ' ' << vproto::to_hex(p.position_.dx()) << ' ' << vproto::to_hex(p.position_.dy()) << ' ' << vproto::to_hex(p.position_.dz());
    return o.str();
}

static cell_type_param_ptr make_type(short kind){
    auto ct = std::make_shared<cell_type_parameters>();
    static const char* names[] = {"epithelial", "ecm", "lumen", "nucleus", "static"};
    ct->name_ = names[((kind % 5) + 5) % 5];
    ct->global_type_id_ = kind;
    ct->mass_density_ = 1e3; ct->bulk_modulus_ = 1e4; ct->max_pressure_ = 1e20;
    ct->target_isoperimetric_ratio_ = 150; ct->surface_coupling_max_curvature_ = 1e20;
    ct->avg_division_vol_ = 1e20; ct->min_vol_ = 1e-30;
    for(unsigned k = 0; k < 3; k++){
        face_type_parameters ft; ft.name_ = "ft" + std::to_string(k); ft.face_type_global_id_ = k;
        ft.adherence_strength_ = 0; ft.repulsion_strength_ = 2e9; ft.surface_tension_ = 1e-3; ft.bending_modulus_ = 0;
        ct->add_face_type(ft);
    }
    return ct;
}

static void write_vtk(const std::string& path, const mesh& m, short type_id){
    std::ofstream f(path.c_str(), std::ios::trunc);
    char buf[64];
    f << "# vtk DataFile Version 4.2\nvtk output\nASCII\nDATASET UNSTRUCTURED_GRID\n";
    f << "POINTS " << m.node_pos_lst.size() / 3 << " double\n";
    for(size_t i = 0; i < m.node_pos_lst.size(); i++){
        std::snprintf(buf, sizeof buf, "%.17g", m.node_pos_lst[i]);
        f << buf << ((i % 9 == 8) ? "\n" : " ");
    }
    f << "\n";
    size_t tot = 1;
    for(const auto& fc : m.face_point_ids) tot += 1 + fc.size();
    f << "CELLS 1 " << tot + 1 << "\n" << tot << ' ' << m.face_point_ids.size();
    for(const auto& fc : m.face_point_ids){ f << ' ' << fc.size(); for(unsigned i : fc) f << ' ' << i; }
    f << "\n\nCELL_TYPES 1\n42\n\nCELL_DATA 1\nFIELD FieldData 1\ncell_type_id 1 1 int\n" << type_id << "\n";
}

static size_t count_occurrences(const std::string& path, const std::string& needle){
    std::ifstream f(path.c_str());
    std::stringstream ss; ss << f.rdbuf();
    const std::string s = ss.str();
    size_t n = 0;
    for(size_t p = s.find(needle); p != std::string::npos; p = s.find(needle, p + needle.size())) n++;
    return n;
}

int main(){
    const int out_fd = dup(1);
    FILE* out = fdopen(out_fd, "w");
    const int devnull = open("/dev/null", O_WRONLY);
    dup2(devnull, 1);                         // the simulator's chatter on stdout is discarded
    char tmpl[] = "/tmp/verif_recon_XXXXXX";
    const char* dir_c = mkdtemp(tmpl);
    if(!dir_c){ fprintf(out, "fatal mkdtemp\n"); return 2; }
    const std::string dir = dir_c;
    const std::string mesh_path = dir + "/m.vtk", err_path = dir + "/stderr.txt";

    std::string line;
    while(std::getline(std::cin, line)){
        auto w = vproto::split(line);
        std::string ans = "bad-op";
        if(!w.empty()){
            const std::string op = w[0];
            try{
                if(op == "gate"){
                    mesh m;
                    if(parse_mesh(w, 1, false, m)){
                        cell_ptr c = std::make_shared<cell>(m, 0);
                        try{
                            c->initialize_cell_properties(true);
                            std::ostringstream o;
                            o << "ok " << m.face_point_ids.size();
                            for(const face& f : c->get_face_lst()){ const auto n = f.get_node_ids(); o << ' ' << n[0] << ' ' << n[1] << ' ' << n[2]; }
                            o << ' ' << vproto::to_hex(c->get_area()) << ' ' << vproto::to_hex(c->get_volume());
                            ans = o.str();
                        }
                        catch(const mesh_integrity_exception&){ ans = "err integrity"; }
                        catch(const initial_triangulation_exception&){ ans = "err notmanifold"; }
                        catch(const std::exception&){ ans = "err other"; }
                        c->clear_data();
                    }
                }
                else if(op == "coarse"){
                    mesh m;
                    if(parse_mesh(w, 1, true, m)){
                        bool ok3 = true;
                        for(const auto& f : m.face_point_ids) if(f.size() < 3) ok3 = false;
                        if(ok3){ initial_triangulation::coarse_triangulation(m); ans = dump_mesh(m); }
                    }
                }
                else if(op == "recon" && w.size() > 2){
                    mesh m;
                    const double l_min = vproto::from_hex(w[1]);
                    if(parse_mesh(w, 2, true, m)){
                        try{
                            const mesh r = initial_triangulation::triangulate_surface(l_min, 3. * l_min, m, 0);
                            bool tri = true;
                            for(const auto& f : r.face_point_ids) if(f.size() != 3) tri = false;
                            ans = tri ? dump_mesh(r) : std::string("exc returned_mesh_not_triangulated");
                        }
                        catch(const std::exception& e){ ans = "exc " + demangle(typeid(e).name()); }
                    }
                }
                else if((op == "cloud" || op == "uniform") && w.size() > 2){
                    mesh m;
                    const double l_min = vproto::from_hex(w[1]);
                    if(parse_mesh(w, 2, true, m)){
                        try{
                            initial_triangulation::coarse_triangulation(m);
                            cell_ptr c = initial_triangulation::convert_mesh_to_cell(m);
                            const auto uni = poisson_sampling::uniform_sampling(c, l_min);
                            if(op == "uniform") ans = dump_points(uni.size(), uni);
                            else{
                                const auto pts = poisson_sampling::compute_poisson_point_cloud(l_min, c);
                                ans = dump_points(uni.size(), pts);
                            }
                            c->clear_data();
                        }
                        catch(const std::exception& e){ ans = "exc " + demangle(typeid(e).name()); }
                    }
                }
                else if(op == "dart" && w.size() >= 10){
                    const double l_min = vproto::from_hex(w[1]), voxel = vproto::from_hex(w[2]);
                    double bb[6];
                    for(int i = 0; i < 6; i++) bb[i] = vproto::from_hex(w[3 + i]);
                    const size_t n = std::stoul(w[9]);
                    if(w.size() == 10 + 3 * n && bb[0] < bb[3] && bb[1] < bb[4] && bb[2] < bb[5] && voxel > 0.){
                        std::vector<oriented_point> cloud;
                        for(size_t i = 0; i < n; i++)
                            cloud.emplace_back(vec3(vproto::from_hex(w[10 + 3*i]), vproto::from_hex(w[11 + 3*i]), vproto::from_hex(w[12 + 3*i])), vec3(0., 0., 1.));
                        uspg_4d<oriented_point> grid_1(bb[0], bb[1], bb[2], bb[3], bb[4], bb[5], voxel, cloud.size());
                        uspg_4d<oriented_point> grid_2(bb[0], bb[1], bb[2], bb[3], bb[4], bb[5], voxel, cloud.size());
                        for(oriented_point& p : cloud) grid_1.place_object(p, p.position_);
                        const auto pts = poisson_sampling::poisson_disk_sampling(grid_1, grid_2, l_min);
                        ans = dump_points(n, pts);
                    }
                }
                else if(op == "init" && w.size() > 4){
                    mesh m;
                    const bool tri = w[1] == "1";
                    const double l_min = vproto::from_hex(w[2]);
                    const short kind = (short) std::stoi(w[3]);
                    if(parse_mesh(w, 4, true, m)){
                        write_vtk(mesh_path, m, kind);
                        global_simulation_parameters sp;
                        sp.output_folder_path_ = dir; sp.input_mesh_path_ = mesh_path;
                        sp.perform_initial_triangulation_ = tri; sp.damping_coefficient_ = 1.; sp.simulation_duration_ = 1.;
                        sp.sampling_period_ = 1.; sp.time_step_ = 1e-3; sp.min_edge_len_ = l_min;
                        sp.contact_cutoff_adhesion_ = l_min; sp.contact_cutoff_repulsion_ = l_min;
                        std::vector<cell_type_param_ptr> types;
                        for(short k = 0; k <= (kind < 0 ? 0 : kind); k++) types.push_back(make_type(k));
                        // count the restart messages the loop prints on stderr
                        fflush(stderr);
                        const int saved = dup(2);
                        const int ef = open(err_path.c_str(), O_WRONLY | O_CREAT | O_TRUNC, 0600);
                        dup2(ef, 2); close(ef);
                        std::string res;
                        try{
                            simulation_initializer init(sp, types, false);
                            const auto cells = init.get_cell_lst();
                            std::ostringstream o;
                            if(cells.size() != 1 || !cells[0]) o << "exc wrong_number_of_cells";
                            else{
                                const cell_ptr c = cells[0];
                                o << "ok @TRIES@ " << c->get_face_lst().size();
                                for(const face& f : c->get_face_lst()){ const auto n = f.get_node_ids(); o << ' ' << n[0] << ' ' << n[1] << ' ' << n[2]; }
                                const auto xs = c->get_flat_node_coord_lst();
                                o << ' ' << xs.size() / 3;
                                for(double x : xs) o << ' ' << vproto::to_hex(x);
                                o << ' ' << vproto::to_hex(c->get_volume());
                                for(const auto& cc : cells) if(cc) cc->clear_data();
                            }
                            res = o.str();
                        }
                        catch(const std::exception& e){ res = "exc " + demangle(typeid(e).name()) + " @TRIES@"; }
                        std::cerr.flush(); fflush(stderr);
                        dup2(saved, 2); close(saved);
                        const size_t tries = count_occurrences(err_path, "will be restarted");
                        const size_t p = res.find("@TRIES@");
                        if(p != std::string::npos) res.replace(p, 7, std::to_string(tries));
                        ans = res;
                    }
                }
            }
            catch(const std::exception& e){ ans = std::string("harness-exc ") + demangle(typeid(e).name()); }
        }
        fprintf(out, "%s\n", ans.c_str());
        fflush(out);
    }
    std::string cmd = "rm -rf " + dir;
    if(std::system(cmd.c_str())){}
    return 0;
}
