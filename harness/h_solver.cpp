// Scenario harness (C10, C14, C15): loads a simulation exactly as main.cpp does (parameter file ->
// simulation_initializer -> solver), optionally translates the whole tissue, steps the REAL
// solver::run_iteration N times with T threads and dumps the state every K iterations:
//   S <iter> <time hex> <nb cells>
//   C <cell id> <local id> <type> <nb node slots> <nb face slots> <area hex> <volume hex> <target volume hex> <pressure hex>
//   P <x y z hex>*           positions of all node slots (unused slots as '-')
//   M <x y z hex>*           momenta
//   T <n1 n2 n3 type>*       live triangles in slot order
// with the mode word `tissue` (C14, assembled tissue iteration) every cell is followed by five more lines
// (CONTACT_MODEL_INDEX 1 only):
//   N <x y z hex>*           node::normal_ of all node slots (unused slots as '-')
//   V <hex>*                 node::curvature_
//   Q <cell node>*           node::coupled_node_ ('- -' when empty or unused)
//   D <hex>*                 node::squared_distance_to_closest_node_
//   F <x y z hex>*           node::force_
//   A <nx ny nz area hex>*   cached face::normal_ and face::area_ of the live triangles in slot order
// with the mode word `slots` (C14, assembled iteration WITH remeshing) the `S` line is followed by
//   J <solver::file_number_>
// and every cell by the complete bookkeeping state in the format of harness/h_remesh.cpp / lean/Driver/C01.lean:
//   R N <nb node slots> ; <used> <pos hex x3> <momentum hex x3> … | F <nb face slots> ; 1 n1 n2 n3 type <normal hex x3> <area hex> (or ; 0) …
//     | E <nb edges> ; n1 n2 f1 f2 … (std::set order) | FN <free_node_queue_> | FF <free_face_queue_>
// a std::exception thrown by run_iteration is reported as `X <integrity|badopt|other:what>` and ends the run.
// with the mode word `tslots` (C14, assembled TISSUE iteration WITH remeshing) the output is `S`, `J`, and per cell the `C` line,
// the `R` line of mode `slots` and
//   B <force hex x3> <normal hex x3> <curvature hex> <coupled cell node | - -> <closest squared distance hex> …
// for EVERY node slot, used or not, raw (what a released slot holds after node::reset is part of the compared state).
// with the mode word `pslots` (C14, assembled tissue iteration with remeshing AND removal of cells) the output is that of `tslots` with one
// more line `I <solver::max_cell_id_>` behind `J` (the `C` lines carry cell id and local id as in every mode).
// with the mode word `dslots` (C14, assembled tissue iteration with DIVISION) the cells are exact copies of the initialised cells in the subclass
// `probe_epi` of `epithelial_cell` (overrides the virtuals `get_cell_same_type` — same body, probe class, attempt counted — and
// `update_face_types` — forwards to the base after the hook); the output is that of `pslots`, and in every iteration in which `cell_divider::run`
// called `divide_cell` the hook (first `update_face_types` call of the iteration = right after `cell_divider::run`) prints the WHOLE list as the
// divider left it:  `DS <iteration> <attempts>`, `J`, `I`, per cell `C`, `R`, `B`, closed by `DE`.
// with the mode word `d2slots` (C14, the WHOLE divide_cell inside the assembled model) the output is that of `dslots`, and for every call of
// `divide_cell` (observed through the virtual `get_cell_division_axis()` of the probe class, which forwards to the base) two more lines are
// printed while the iteration runs:
//   DA <iteration> <cell id> <local id> <axis hex x3> <centroid hex x3>            the axis the code used (and compute_centroid() of the rebased mother)
//   DD <np> <x y hex>*np <nt> <a b c>*nt    |    DD none <exception>                the interface triangulation `D` in the plane frame: the points created by the
//                                            Poisson sampling (2-D) and the triangles kept from the Delaunay triangulation (indices relative to the first interface point)
// `D` is obtained by running the REAL public stages (add_intersection_points … triangulate_division_interface) on the mother a second time, in front of the
// real `divide_cell`, with the same value of the clock that seeds the Poisson sampler: in this mode `std::chrono::system_clock::now()` is answered by the
// harness (a counter that the shadow evaluation rewinds); nothing of the solver is replaced, and in every other mode the clock is the real one.
// usage: h_solver <param.xml> <iters> <threads> <dump_every> [tx ty tz (hex)] [full|run|tissue|slots|tslots|pslots|dslots|d2slots]
#include "proto.hpp"
#include "simulation_initializer.hpp"
#include "solver.hpp"
#include <omp.h>
#include <optional>
#include <sstream>
#include "custom_exception.hpp"
#include "cell_divider.hpp"
#include "initial_triangulation.hpp"
#include <chrono>
#include <numeric>
#include <time.h>

// ---------------------------------------------------------------- mode `d2slots`: the clock that seeds the Poisson sampler
static bool g_fake_clock = false;
static long long g_fake_now = 1700000000000000000LL;
std::chrono::system_clock::time_point std::chrono::system_clock::now() noexcept {
    if(!g_fake_clock){
        timespec ts; clock_gettime(CLOCK_REALTIME, &ts);
        return time_point(std::chrono::duration_cast<duration>(std::chrono::seconds(ts.tv_sec) + std::chrono::nanoseconds(ts.tv_nsec)));
    }
    return time_point(duration(g_fake_now++));
}

using vproto::to_hex; using vproto::from_hex;

class cell_tester {
public:
    static void translate(cell_ptr c, const vec3& t){
        for(node& n : c->node_lst_) if(n.is_used_) n.pos_ = n.pos_ + t;
    }
    static void dump(cell_ptr c, bool with_nodes){
        std::cout << "C " << c->get_id() << ' ' << c->get_local_id() << ' ' << c->get_cell_type()->global_type_id_ << ' '
                  << c->node_lst_.size() << ' ' << c->face_lst_.size() << ' ' << to_hex(c->get_area()) << ' '
                  << to_hex(c->get_volume()) << ' ' << to_hex(c->get_target_volume()) << ' ' << to_hex(c->get_pressure()) << '\n';
        if(!with_nodes) return;
        std::cout << "P";
        for(const node& n : c->node_lst_){
            if(n.is_used_) std::cout << ' ' << to_hex(n.pos_.dx()) << ' ' << to_hex(n.pos_.dy()) << ' ' << to_hex(n.pos_.dz());
            else std::cout << " - - -";
        }
        std::cout << "\nM";
        #if DYNAMIC_MODEL_INDEX == 0
        for(const node& n : c->node_lst_){
            if(n.is_used_) std::cout << ' ' << to_hex(n.momentum_.dx()) << ' ' << to_hex(n.momentum_.dy()) << ' ' << to_hex(n.momentum_.dz());
            else std::cout << " - - -";
        }
        #endif
        std::cout << "\nT";
        for(const face& f : c->face_lst_){
            if(f.is_used_) std::cout << ' ' << f.n1_id_ << ' ' << f.n2_id_ << ' ' << f.n3_id_ << ' ' << f.type_id_;
        }
        std::cout << '\n';
    }
    // the complete bookkeeping state (mode `slots`), format of harness/h_remesh.cpp
    static std::string hv(const vec3& v){ return to_hex(v.dx()) + " " + to_hex(v.dy()) + " " + to_hex(v.dz()); }
    static void dump_slots(cell_ptr c){
        std::ostringstream o;
        o << "R N " << c->node_lst_.size();
        for(const node& n : c->node_lst_){
            o << " ; " << (n.is_used_ ? 1 : 0) << ' ' << hv(n.pos_) << ' ' <<
            #if DYNAMIC_MODEL_INDEX == 0
                hv(n.momentum_);
            #else
                hv(vec3(0,0,0));
            #endif
        }
        o << " | F " << c->face_lst_.size();
        for(const face& f : c->face_lst_){
            if(f.is_used_) o << " ; 1 " << f.n1_id_ << ' ' << f.n2_id_ << ' ' << f.n3_id_ << ' ' << f.type_id_ << ' ' << hv(f.normal_) << ' ' << to_hex(f.area_);
            else o << " ; 0";
        }
        o << " | E " << c->edge_set_.size();
        for(const edge& e : c->edge_set_){
            o << " ; " << e.n1() << ' ' << e.n2() << ' ';
            // edge::f1()/f2() are noexcept and call optional::value(): never call them on an empty slot
            if(e.is_manifold()){ o << e.f1() << ' ' << e.f2(); }
            else{
                std::optional<unsigned> only;
                for(unsigned k = 0; k < c->face_lst_.size(); k++){ if(e.has_face(k)){ only = k; break; } }
                if(only) o << only.value() << " -"; else o << "- -";
            }
        }
        o << " | FN";
        for(unsigned i : c->free_node_queue_) o << ' ' << i;
        if(c->free_node_queue_.empty()) o << ' ';
        o << " | FF";
        for(unsigned i : c->free_face_queue_) o << ' ' << i;
        if(c->free_face_queue_.empty()) o << ' ';
        std::cout << o.str() << '\n';
    }
    // the node attributes of every slot, raw (mode `tslots`)
    static void dump_attrs_raw(cell_ptr c){
        #if CONTACT_MODEL_INDEX == 1
        std::ostringstream o;
        o << "B";
        for(const node& n : c->node_lst_){
            o << ' ' << hv(n.force_) << ' ' << hv(n.normal_) << ' ' << to_hex(n.curvature_) << ' ';
            if(n.coupled_node_.has_value()) o << n.coupled_node_.value().first << ' ' << n.coupled_node_.value().second;
            else o << "- -";
            o << ' ' << to_hex(n.squared_distance_to_closest_node_);
        }
        std::cout << o.str() << '\n';
        #endif
    }
    // the additional state read by the next contact phase (mode `tissue`)
    static void dump_contact_state(cell_ptr c){
        #if CONTACT_MODEL_INDEX == 1
        std::cout << "N";
        for(const node& n : c->node_lst_){
            if(n.is_used_) std::cout << ' ' << to_hex(n.normal_.dx()) << ' ' << to_hex(n.normal_.dy()) << ' ' << to_hex(n.normal_.dz());
            else std::cout << " - - -";
        }
        std::cout << "\nV";
        for(const node& n : c->node_lst_){
            if(n.is_used_) std::cout << ' ' << to_hex(n.curvature_); else std::cout << " -";
        }
        std::cout << "\nQ";
        for(const node& n : c->node_lst_){
            if(n.is_used_ && n.coupled_node_.has_value()) std::cout << ' ' << n.coupled_node_.value().first << ' ' << n.coupled_node_.value().second;
            else std::cout << " - -";
        }
        std::cout << "\nD";
        for(const node& n : c->node_lst_){
            if(n.is_used_) std::cout << ' ' << to_hex(n.squared_distance_to_closest_node_); else std::cout << " -";
        }
        std::cout << "\nF";
        for(const node& n : c->node_lst_){
            if(n.is_used_) std::cout << ' ' << to_hex(n.force_.dx()) << ' ' << to_hex(n.force_.dy()) << ' ' << to_hex(n.force_.dz());
            else std::cout << " - - -";
        }
        std::cout << "\nA";
        for(const face& f : c->face_lst_){
            if(f.is_used_) std::cout << ' ' << to_hex(f.normal_.dx()) << ' ' << to_hex(f.normal_.dy()) << ' ' << to_hex(f.normal_.dz()) << ' ' << to_hex(f.area_);
        }
        std::cout << '\n';
        #endif
    }
};

class stepping_solver : public solver {
public:
    using solver::solver;
    double time() const { return time_integrator_ptr_->get_simulation_time(); }
    unsigned iteration() const { return iteration_; }
    unsigned file_number() const { return file_number_; }
    unsigned max_cell_id() const { return max_cell_id_; }
};

// ---------------------------------------------------------------- mode `dslots`: observe the list right after cell_divider::run
static stepping_solver* g_solver = nullptr;
static long g_last_hook_iter = -1;
static unsigned g_attempts = 0;          // calls of get_cell_same_type since the last hook (two per divide_cell that reached create_daughter_cells)
static void hook_after_divider();
static bool g_record_div = false;
static double g_lmin = 0.;
static void record_division(cell_ptr c, const vec3& axis);
static std::string exc_name_div(const std::exception& e){
    if(dynamic_cast<const division_exception*>(&e)) return "division";
    if(dynamic_cast<const initial_triangulation_exception*>(&e)) return "initial_triangulation";
    if(dynamic_cast<const mesh_integrity_exception*>(&e)) return "integrity";
    if(dynamic_cast<const std::bad_optional_access*>(&e)) return "badopt";
    return "other";
}
class probe_epi : public epithelial_cell {
public:
    explicit probe_epi(const epithelial_cell& c) : epithelial_cell(c) {}
    probe_epi(const mesh& m, unsigned id, cell_type_param_ptr t) noexcept : epithelial_cell(m, id, t) {}
    cell_ptr get_cell_same_type(const mesh& m) noexcept(false) override {
        g_attempts++;
        return std::make_shared<probe_epi>(m, cell_id_, cell_type_);     // the body of epithelial_cell::get_cell_same_type with the probe class
    }
    void update_face_types() noexcept override { hook_after_divider(); epithelial_cell::update_face_types(); }
    vec3 get_cell_division_axis() const noexcept override {
        const vec3 ax = epithelial_cell::get_cell_division_axis();
        if(g_record_div) record_division(std::const_pointer_cast<cell>(shared_from_this()), ax);
        return ax;
    }
};
// mode `d2slots`: the axis and the interface triangulation of the divide_cell call that is asking for the axis
static void record_division(cell_ptr c, const vec3& axis){
    const vec3 centroid = c->compute_centroid();
    std::ostringstream o;
    o << "DA " << (g_solver ? (long) g_solver->iteration() : -1) << ' ' << c->get_id() << ' ' << c->get_local_id() << ' ' << cell_tester::hv(axis) << ' ' << cell_tester::hv(centroid) << '\n';
    const long long clock0 = g_fake_now;
    try{
        const unsigned thr = c->get_node_lst().size();
        mesh m = cell_divider::add_intersection_points(c, centroid, axis);
        cell_divider::divide_faces(m, thr);
        const unsigned fthr = m.face_point_ids.size();
        const unsigned nb = m.node_pos_lst.size() / 3 - thr;
        std::vector<unsigned> ids(nb);
        std::iota(ids.begin(), ids.end(), thr);
        m.face_point_ids.push_back(ids);
        initial_triangulation::coarse_triangulation(m);
        cell_divider::map_points_to_xy_plane(m, thr, axis);
        const size_t n0 = m.node_pos_lst.size() / 3;
        cell_divider::triangulate_division_interface(g_lmin, m, thr, fthr, axis);
        const size_t n1 = m.node_pos_lst.size() / 3;
        o << "DD " << (n1 - n0);
        for(size_t i = n0; i < n1; i++) o << ' ' << to_hex(m.node_pos_lst[3*i]) << ' ' << to_hex(m.node_pos_lst[3*i + 1]);
        o << ' ' << (m.face_point_ids.size() - fthr);
        for(size_t f = fthr; f < m.face_point_ids.size(); f++) for(unsigned x : m.face_point_ids[f]) o << ' ' << (x - thr);
        o << '\n';
    }
    catch(const std::exception& e){ o << "DD none " << exc_name_div(e) << '\n'; }
    g_fake_now = clock0;        // the real divide_cell sees the same clock values as the shadow evaluation
    std::cout << o.str();
}
static void hook_after_divider(){
    if(g_solver == nullptr) return;
    const long it = g_solver->iteration();
    if(it == g_last_hook_iter) return;
    g_last_hook_iter = it;
    if(g_attempts == 0) return;
    std::cout << "DS " << it << ' ' << g_attempts << '\n' << "J " << g_solver->file_number() << '\n' << "I " << g_solver->max_cell_id() << '\n';
    for(cell_ptr c : g_solver->get_cell_lst()){
        cell_tester::dump(c, false);
        cell_tester::dump_slots(c);
        cell_tester::dump_attrs_raw(c);
    }
    std::cout << "DE\n";
    g_attempts = 0;
}

static std::string exc_name(const std::exception& e){
    if(dynamic_cast<const mesh_integrity_exception*>(&e)) return "integrity";
    if(dynamic_cast<const std::bad_optional_access*>(&e)) return "badopt";
    return std::string("other:") + e.what();
}

int main(int argc, char** argv){
    if(argc < 5){ std::cerr << "usage\n"; return 2; }
    const std::string param = argv[1];
    const int iters = std::atoi(argv[2]);
    const int threads = std::atoi(argv[3]);
    const int every = std::atoi(argv[4]);
    vec3 t(0., 0., 0.);
    bool translate = false;
    int k = 5;
    if(argc >= 8 && std::string(argv[5]).size() == 16){ t = vec3(from_hex(argv[5]), from_hex(argv[6]), from_hex(argv[7])); translate = true; k = 8; }
    const std::string mode = argc > k ? argv[k] : "full";
    std::ios::sync_with_stdio(false);
    const bool d2 = mode == "d2slots";
    if(d2) g_fake_clock = true;
    try{
        omp_set_num_threads(threads);
        simulation_initializer sim_init(param, false);
        std::vector<cell_ptr> cells = sim_init.get_cell_lst();
        if(translate){
            for(cell_ptr c : cells){ cell_tester::translate(c, t); c->initialize_cell_properties(false); }
        }
        if(mode == "dslots" || d2){
            if(d2){ g_record_div = true; g_lmin = sim_init.get_simulation_parameters().min_edge_len_; }
            for(size_t i = 0; i < cells.size(); i++){
                auto e = std::dynamic_pointer_cast<epithelial_cell>(cells[i]);
                if(e){ auto p = std::make_shared<probe_epi>(*e); p->set_face_owner_cell(); cells[i] = p; }
            }
        }
        {
            stepping_solver s(sim_init.get_simulation_parameters(), cells, threads, true, false);
            if(mode == "dslots" || d2) g_solver = &s;
            if(mode == "run"){
                s.run();
                std::cout << "S " << s.iteration() << ' ' << to_hex(s.time()) << ' ' << s.get_cell_lst().size() << '\n';
                for(cell_ptr c : s.get_cell_lst()) cell_tester::dump(c, true);
            }
            else{
                for(int i = 0; i <= iters; i++){
                    if(i % every == 0 || i == iters){
                        std::cout << "S " << s.iteration() << ' ' << to_hex(s.time()) << ' ' << s.get_cell_lst().size() << '\n';
                        if(mode == "slots" || mode == "tslots" || mode == "pslots" || mode == "dslots" || d2) std::cout << "J " << s.file_number() << '\n';
                        if(mode == "pslots" || mode == "dslots" || d2) std::cout << "I " << s.max_cell_id() << '\n';
                        for(cell_ptr c : s.get_cell_lst()){
                            cell_tester::dump(c, mode != "tslots" && mode != "pslots" && mode != "dslots" && !d2);
                            if(mode == "tissue") cell_tester::dump_contact_state(c);
                            if(mode == "slots" || mode == "tslots" || mode == "pslots" || mode == "dslots" || d2) cell_tester::dump_slots(c);
                            if(mode == "tslots" || mode == "pslots" || mode == "dslots" || d2) cell_tester::dump_attrs_raw(c);
                        }
                    }
                    if(i == iters || s.get_cell_lst().empty()) break;
                    if(mode == "slots" || mode == "tslots" || mode == "pslots" || mode == "dslots" || d2){
                        try{ s.run_iteration(); }
                        catch(const std::exception& e){ std::cout << "X " << exc_name(e) << '\n'; break; }
                    }
                    else s.run_iteration();
                }
            }
            std::cout << "END\n";
            g_solver = nullptr;
        }   // the solver (and with it the contact model / statistics writer held through base pointers) is destroyed here
        std::cout << "DESTROYED\n";
    }
    catch(const std::exception& e){
        std::cout << "EXC " << e.what() << '\n';
        return 3;
    }
    return 0;
}
