// C03 (addition) harness: runs the REAL tail of contact_node_node_via_coupling::resolve_all_contacts (the sequential
// symmetrisation loop and the midpoint loop that follow the parallel contact search) on a PRESCRIBED coupling table
// and prints the table and the positions it leaves.  Default build only (CONTACT_MODEL_INDEX 1).
//
// request:  pass MODE ncells { nnodes { used coup px py pz }*nnodes }*ncells
//             coup = `-` (std::nullopt) or `c:n` (cell index : node index); doubles as 16-hex-digit bit patterns
// answer:   ok { used coup px py pz }*   (cell order, slot order)
//           | undefined          a USED node's coupling names no existing slot: the C++ would read out of bounds; not called
//           | search-interfered  the contact search of resolve_all_contacts created a force or a coupling (the case is void)
//           | bad-op | bad-config
//
// How the two loops are reached with a prescribed table (the public resolve_all_contacts(cell_lst) is called; the
// parallel search that precedes the two loops must find nothing):
//   MODE g  "gated":  every cell type has surface_coupling_max_curvature_ = 0 and every node curvature_ = 0, so the
//           gate `n.curvature_ < surface_coupling_max_curvature` of the search loop is false for every node: the
//           search visits no voxel (the grid is never touched) and positions may be arbitrary.
//   MODE s  "search on": the gate is open (max curvature 1e300).  The cells (>= 4 slots; 4 slots: a tetrahedron, more: a
//           closed bipyramid with apexes 0, 1 and ring 2..; cells far apart compared with the cut-offs — the generator's
//           obligation; initialised with the real initialize_cell_properties) are
//           first handed to the real run() with every slot used and uncoupled, which builds the broad-phase grid; then
//           the used flags and the table are written through the cell_tester friend and resolve_all_contacts is called:
//           the real search runs over every used node, finds no face of another cell, and the two loops follow.
//   In both modes the harness verifies afterwards that every force accumulator is still zero and that no node has a
//   coupling it did not have in the request.
#include "proto.hpp"
#include <omp.h>
#include <memory>
#include <optional>
#include "global_configuration.hpp"
#include "custom_structures.hpp"
#include "cell.hpp"
#include "epithelial_cell.hpp"
#include "contact_model_abstract.hpp"
#include "contact_node_node_via_coupling.hpp"

#if CONTACT_MODEL_INDEX == 1

typedef std::optional<std::pair<unsigned, unsigned>> coup_t;

// befriended by cell and node
class cell_tester {
public:
    static size_t nb_slots(cell_ptr c){ return c->node_lst_.size(); }
    static node& nd(cell_ptr c, size_t i){ return c->node_lst_[i]; }
    static void set_used(node& n, bool u){ n.is_used_ = u; }
    static void set_coup(node& n, const coup_t& cp){ n.coupled_node_ = cp; }
    static const coup_t& coup(const node& n){ return n.coupled_node_; }
    static void free_queue(cell_ptr c, const std::vector<unsigned>& q){ c->free_node_queue_ = q; }
    static double curvature(const node& n){ return n.curvature_; }
    static unsigned id(const node& n){ return n.node_id_; }
};

static bool parse_coup(const std::string& t, coup_t& out){
    if(t == "-"){ out = std::nullopt; return true; }
    const size_t c = t.find(':');
    if(c == std::string::npos || c == 0 || c + 1 >= t.size()) return false;
    for(size_t i = 0; i < t.size(); i++) if(i != c && (t[i] < '0' || t[i] > '9')) return false;
    out = std::make_pair((unsigned) std::stoul(t.substr(0, c)), (unsigned) std::stoul(t.substr(c + 1)));
    return true;
}

static std::string run(const std::vector<std::string>& w){
    size_t k = 1;
    auto more = [&](size_t n){ return k + n <= w.size(); };
    if(!more(2)) return "bad-op";
    const std::string mode = w[k++];
    if(mode != "g" && mode != "s") return "bad-op";
    const long ncells = std::stol(w[k++]);
    if(ncells < 0 || ncells > 64) return "bad-op";

    std::vector<cell_ptr> cells;
    std::vector<std::vector<char>> used;
    std::vector<std::vector<coup_t>> table;
    for(long ci = 0; ci < ncells; ci++){
        if(!more(1)) return "bad-op";
        const long nn = std::stol(w[k++]);
        if(nn < 1 || nn > 64) return "bad-op";
        if(mode == "s" && nn < 4) return "bad-op";
        std::vector<double> pos; std::vector<char> u; std::vector<coup_t> cp;
        for(long ni = 0; ni < nn; ni++){
            if(!more(5)) return "bad-op";
            u.push_back(std::stol(w[k++]) != 0);
            coup_t c; if(!parse_coup(w[k++], c)) return "bad-op";
            cp.push_back(c);
            for(int q = 0; q < 3; q++) pos.push_back(vproto::from_hex(w[k++]));
        }
        auto ct = std::make_shared<cell_type_parameters>();
        ct->global_type_id_ = 0;                    // epithelial: the only type the search couples
        ct->mass_density_ = 1.;
        ct->surface_coupling_max_curvature_ = (mode == "g") ? 0. : 1e300;
        std::vector<unsigned> faces;
        if(mode == "s" && nn >= 5){
            // closed bipyramid: apexes 0 and 1, ring 2 .. nn-1 (every slot belongs to a face)
            const unsigned m = (unsigned) nn - 2;
            for(unsigned i = 0; i < m; i++){
                const unsigned a = 2 + i, b = 2 + (i + 1) % m;
                faces.insert(faces.end(), {0u, a, b, 1u, b, a});
            }
        }
        else if(nn >= 4) faces = {0, 2, 1, 0, 1, 3, 1, 2, 3, 2, 0, 3};
        else if(nn == 3) faces = {0, 1, 2};
        // the cell id (unique, never reused, drifts away from the position after divisions / removals) is deliberately NOT the position
        cell_ptr c = std::make_shared<epithelial_cell>(pos, faces, (unsigned) (1000 + 37 * ci), ct);
        c->set_local_id((unsigned) ci);            // the solver's invariant: local id = position in cell_lst
        if(mode == "s") c->initialize_cell_properties(true);   // face owners, normals, areas (the grid needs the owners)
        if((long) cell_tester::nb_slots(c) != nn) return "bad-op";
        for(long ni = 0; ni < nn; ni++) if(cell_tester::id(cell_tester::nd(c, ni)) != (unsigned) ni) return "bad-op";
        cells.push_back(c); used.push_back(u); table.push_back(cp);
    }
    if(k != w.size()) return "bad-op";

    // a used node's coupling must name an existing slot: loop (A) reads cell_lst[c2_id]->node_lst_[n2_id] unchecked
    for(size_t ci = 0; ci < cells.size(); ci++)
        for(size_t ni = 0; ni < table[ci].size(); ni++)
            if(used[ci][ni] && table[ci][ni].has_value()){
                const auto [c2, n2] = table[ci][ni].value();
                if(c2 >= cells.size() || n2 >= cell_tester::nb_slots(cells[c2])) return "undefined";
            }

    global_simulation_parameters gp;
    gp.min_edge_len_ = 0.1;
    gp.contact_cutoff_adhesion_ = 0.05;
    gp.contact_cutoff_repulsion_ = 0.05;
    contact_node_node_via_coupling cm(gp);

    if(mode == "s"){
        omp_set_num_threads(2);
        cm.run(cells);        // builds the grid; every slot used, nothing coupled, cells far apart
        for(cell_ptr c : cells) for(size_t ni = 0; ni < cell_tester::nb_slots(c); ni++){
            const node& n = cell_tester::nd(c, ni);
            if(cell_tester::coup(n).has_value() || n.force().dx() != 0. || n.force().dy() != 0. || n.force().dz() != 0.) return "search-interfered";
        }
    } else omp_set_num_threads(1);

    // write the prescribed table
    for(size_t ci = 0; ci < cells.size(); ci++){
        std::vector<unsigned> fq;
        for(size_t ni = 0; ni < table[ci].size(); ni++){
            node& n = cell_tester::nd(cells[ci], ni);
            if(cell_tester::curvature(n) != 0.) return "bad-op";
            cell_tester::set_used(n, used[ci][ni]);
            cell_tester::set_coup(n, table[ci][ni]);
            if(!used[ci][ni]) fq.push_back((unsigned) ni);
        }
        cell_tester::free_queue(cells[ci], fq);
    }

    cm.resolve_all_contacts(cells);      // the REAL function: parallel search (finds nothing), loop (A), loop (B)

    std::string out = "ok";
    for(size_t ci = 0; ci < cells.size(); ci++)
        for(size_t ni = 0; ni < cell_tester::nb_slots(cells[ci]); ni++){
            const node& n = cell_tester::nd(cells[ci], ni);
            if(n.force().dx() != 0. || n.force().dy() != 0. || n.force().dz() != 0.) return "search-interfered";
            const coup_t& cp = cell_tester::coup(n);
            if(cp.has_value() && (!table[ci][ni].has_value() || table[ci][ni].value() != cp.value())) return "search-interfered";
            out += n.is_used() ? " 1 " : " 0 ";
            if(cp.has_value()) out += std::to_string(cp.value().first) + ":" + std::to_string(cp.value().second); else out += "-";
            out += ' ' + vproto::to_hex(n.pos().dx()) + ' ' + vproto::to_hex(n.pos().dy()) + ' ' + vproto::to_hex(n.pos().dz());
        }
    return out;
}
#else
static std::string run(const std::vector<std::string>&){ return "bad-config"; }
#endif

int main(){
    std::ios::sync_with_stdio(false);
    std::string line;
    while(std::getline(std::cin, line)){
        auto w = vproto::split(line);
        if(w.empty() || w[0] != "pass"){ std::cout << "bad-op\n"; continue; }
        std::string r;
        try { r = run(w); } catch(const std::exception&){ r = "bad-op"; }
        std::cout << r << '\n';
    }
    return 0;
}
