// C12 harness: builds a real `cell` from node coordinates and face node ids (as the tests in
// /repo/test/test_mesh/test_cell do), runs cell::initialize_cell_properties(true) and prints what the real
// getters report.
// request : geo <nn> <nf> <3*nn doubles as hex> <3*nf node ids>
// answer  : ok <nf> <3*nf node ids> <area volume cx cy cz minx miny minz maxx maxy maxz ax ay az>
//              <nf face areas> <3*nf face normals>
//           err integrity | err notmanifold | err other
// request : eig <cxx cxy cxz cyy cyz czz>  answer : ok <3 eigenvalues> <3 x 3 column entries> (real mat33::eigen_decomposition)
#include "proto.hpp"
#include "cell.hpp"
#include "custom_exception.hpp"
#include "mat33.hpp"

int main(){
    std::ios::sync_with_stdio(false);
    std::string line;
    while(std::getline(std::cin, line)){
        auto w = vproto::split(line);
        if(w.size() == 7 && w[0] == "eig"){
            // request : eig <cxx cxy cxz cyy cyz czz>   answer : ok <3 eigenvalues> <col 0> <col 1> <col 2>
            // the REAL mat33::eigen_decomposition (what get_cell_longest_axis selects its column from)
            double m[6];
            for(int i = 0; i < 6; i++) m[i] = vproto::from_hex(w[1+i]);
            const mat33 cm({m[0], m[1], m[2]}, {m[1], m[3], m[4]}, {m[2], m[4], m[5]});
            const auto [ev, evec] = cm.eigen_decomposition();
            std::ostringstream o;
            o << "ok " << vproto::to_hex(ev.dx()) << ' ' << vproto::to_hex(ev.dy()) << ' ' << vproto::to_hex(ev.dz());
            for(unsigned k = 0; k < 3; k++){ const vec3 col = evec.get_col(k); o << ' ' << vproto::to_hex(col.dx()) << ' ' << vproto::to_hex(col.dy()) << ' ' << vproto::to_hex(col.dz()); }
            std::cout << o.str() << '\n';
            continue;
        }
        if(w.size() < 3 || w[0] != "geo"){ std::cout << "bad-op\n"; continue; }
        const size_t nn = std::stoul(w[1]), nf = std::stoul(w[2]);
        if(nn == 0 || nf == 0 || w.size() != 3 + 3*nn + 3*nf){ std::cout << "bad-op\n"; continue; }
        std::vector<double> pos(3*nn);
        std::vector<unsigned> ids(3*nf);
        for(size_t i = 0; i < 3*nn; i++) pos[i] = vproto::from_hex(w[3+i]);
        bool bad = false;
        for(size_t i = 0; i < 3*nf; i++){ ids[i] = (unsigned) std::stoul(w[3+3*nn+i]); if(ids[i] >= nn) bad = true; }
        if(bad){ std::cout << "bad-op\n"; continue; }
        cell_ptr c = std::make_shared<cell>(pos, ids, 0);
        try{
            c->initialize_cell_properties(true);
        }catch(const mesh_integrity_exception&){ std::cout << "err integrity\n"; c->clear_data(); continue; }
        catch(const initial_triangulation_exception&){ std::cout << "err notmanifold\n"; c->clear_data(); continue; }
        catch(const std::exception&){ std::cout << "err other\n"; c->clear_data(); continue; }
        std::ostringstream o;
        o << "ok " << nf;
        for(const face& f : c->get_face_lst()){ const auto n = f.get_node_ids(); o << ' ' << n[0] << ' ' << n[1] << ' ' << n[2]; }
        const vec3 ce = c->compute_centroid();
        const auto bb = c->get_aabb();
        const vec3 ax = c->get_cell_longest_axis();
        o << ' ' << vproto::to_hex(c->get_area()) << ' ' << vproto::to_hex(c->get_volume());
        o << ' ' << vproto::to_hex(ce.dx()) << ' ' << vproto::to_hex(ce.dy()) << ' ' << vproto::to_hex(ce.dz());
        for(double b : bb) o << ' ' << vproto::to_hex(b);
        o << ' ' << vproto::to_hex(ax.dx()) << ' ' << vproto::to_hex(ax.dy()) << ' ' << vproto::to_hex(ax.dz());
        for(const face& f : c->get_face_lst()) o << ' ' << vproto::to_hex(f.get_area());
        for(const face& f : c->get_face_lst()){ const vec3& n = f.get_normal(); o << ' ' << vproto::to_hex(n.dx()) << ' ' << vproto::to_hex(n.dy()) << ' ' << vproto::to_hex(n.dz()); }
        std::cout << o.str() << '\n';
        c->clear_data();   // break the cell <-> face shared_ptr cycle
    }
    return 0;
}
