// C16 harness: builds a population of REAL cells (all five cell classes, or a plain cell without a
// type), optionally with free node / face slots exactly as local mesh operations leave them
// (slot marked unused + its index in the free queue, in the order given), writes it with the real
// mesh_writer::write (cell-data + face-data file, the call of solver::save_mesh), reads the cell-data file
// back with the real mesh_reader (read() and get_cell_types()) and answers with the bytes of the file and a
// dump of what was read.
//
//   pop|popc <ncells> then per cell:      (pop: mesh_writer::write; popc: mesh_writer::write_cell_data_file(path, cells), rebase = true)
//       <class 0..4 = epithelial, ecm, lumen, nucleus, static | 5 = plain cell without a type> <cell id>
//       <#node slots> <#face slots> <#free nodes> <#free faces>
//       node slots:  <x hex> <y hex> <z hex>          (free slots too: their content must not matter)
//       face slots:  <a> <b> <c>
//       free node ids (queue order)   free face ids (queue order)
//   answer:  ok file <hex bytes> read <dump>   |   wexc <type> <msg>   (writer threw)   |  rexc <type> <msg> file <hex>
//
//   meshes <nmeshes> then per mesh: <#coords> <hex>* <#faces> (<arity> <ids>*)*
//       the std::vector<mesh> overload of mesh_writer::write_cell_data_file (debug helper of the test-suite)
#include "proto.hpp"
#include <cxxabi.h>
#include <typeinfo>
#include <unistd.h>
#include <fcntl.h>
#include <fstream>
#include <iterator>

#include "mesh_writer.hpp"
#include "mesh_reader.hpp"
#include "epithelial_cell.hpp"
#include "ecm_cell.hpp"
#include "lumen_cell.hpp"
#include "nucleus_cell.hpp"
#include "static_cell.hpp"

class cell_tester {
public:
    static void free_slots(cell_ptr c, const std::vector<unsigned>& free_nodes, const std::vector<unsigned>& free_faces){
        for(unsigned i: free_nodes){ c->node_lst_[i].set_is_used(false); c->free_node_queue_.push_back(i); }
        for(unsigned i: free_faces){ c->face_lst_[i].set_is_used(false); c->free_face_queue_.push_back(i); }
    }
    static void set_ids(cell_ptr c){
        for(unsigned i = 0; i < c->node_lst_.size(); i++) c->node_lst_[i].set_local_id(i);
        for(unsigned i = 0; i < c->face_lst_.size(); i++) c->face_lst_[i].set_local_id(i);
    }
};

static std::string demangle(const char* n){
    int st = 0; char* d = abi::__cxa_demangle(n, nullptr, nullptr, &st);
    std::string s = (st == 0 && d) ? d : n; free(d); return s;
}
static std::string clean(const char* w){
    std::string s;
    for(const char* p = w; *p && s.size() < 60; ++p){ const unsigned char c = static_cast<unsigned char>(*p); s.push_back(std::isalnum(c) ? static_cast<char>(c) : '_'); }
    return s.empty() ? "_" : s;
}
static std::string to_hex_bytes(const std::string& b){
    static const char* H = "0123456789abcdef";
    std::string o; o.reserve(b.size() * 2);
    for(unsigned char c: b){ o.push_back(H[c >> 4]); o.push_back(H[c & 15]); }
    return o.empty() ? "-" : o;
}
static std::string slurp(const std::string& p){
    std::ifstream f(p.c_str(), std::ios::binary);
    return std::string((std::istreambuf_iterator<char>(f)), std::istreambuf_iterator<char>());
}
static std::string dump_meshes(const std::vector<mesh>& ms, const std::vector<short>& types){
    std::ostringstream o;
    o << "types " << types.size();
    for(short t: types) o << ' ' << t;
    o << " cells " << ms.size();
    for(const mesh& m: ms){
        o << " nodes " << m.node_pos_lst.size();
        for(double x: m.node_pos_lst) o << ' ' << vproto::to_hex(x);
        o << " faces " << m.face_point_ids.size();
        for(const auto& f: m.face_point_ids){ o << ' ' << f.size(); for(unsigned i: f) o << ' ' << i; }
    }
    return o.str();
}

static std::vector<cell_type_param_ptr> make_types(){
    const char* names[5] = {"epithelial", "ecm", "lumen", "nucleus", "static"};
    std::vector<cell_type_param_ptr> v;
    for(short i = 0; i < 5; i++){
        auto t = std::make_shared<cell_type_parameters>();
        t->name_ = names[i]; t->global_type_id_ = i; t->mass_density_ = 1000.; t->bulk_modulus_ = 2500.;
        t->avg_division_vol_ = std::numeric_limits<double>::infinity(); t->target_isoperimetric_ratio_ = 150.;
        face_type_parameters ft; ft.name_ = "f"; ft.face_type_global_id_ = 0; ft.surface_tension_ = 1e-3; ft.repulsion_strength_ = 1e9; ft.adherence_strength_ = 1e9;
        t->face_types_.push_back(ft);
        v.push_back(t);
    }
    return v;
}

int main(){
    const int out_fd = dup(1);
    FILE* out = fdopen(out_fd, "w");
    dup2(open("/dev/null", O_WRONLY), 1);
    char tmpl[] = "/tmp/verif_vtk_XXXXXX";
    const char* dir_c = mkdtemp(tmpl);
    if(!dir_c){ fprintf(out, "fatal mkdtemp\n"); return 2; }
    const std::string dir = dir_c, cell_path = dir + "/cells.vtk", face_path = dir + "/faces.vtk";
    const auto types = make_types();

    std::string line;
    while(std::getline(std::cin, line)){
        auto w = vproto::split(line);
        std::string ans;
        size_t k = 1;
        auto nextu = [&]() -> unsigned { if(k >= w.size()) throw std::runtime_error("short request"); return static_cast<unsigned>(std::stoul(w[k++])); };
        auto nextd = [&]() -> double { if(k >= w.size()) throw std::runtime_error("short request"); return vproto::from_hex(w[k++]); };
        bool written = false;
        try{
            if(!w.empty() && (w[0] == "pop" || w[0] == "popc")){
                const unsigned nc = nextu();
                std::vector<cell_ptr> cells;
                for(unsigned ci = 0; ci < nc; ci++){
                    const unsigned cls = nextu(), id = nextu(), nn = nextu(), nf = nextu(), nfn = nextu(), nff = nextu();
                    std::vector<node> nodes; std::vector<face> faces;
                    for(unsigned i = 0; i < nn; i++){ const double x = nextd(), y = nextd(), z = nextd(); nodes.emplace_back(vec3(x, y, z), i); }
                    for(unsigned i = 0; i < nf; i++){ const unsigned a = nextu(), b = nextu(), c = nextu(); faces.emplace_back(a, b, c, i); }
                    std::vector<unsigned> fn(nfn), ff(nff);
                    for(auto& v: fn) v = nextu();
                    for(auto& v: ff) v = nextu();
                    cell_ptr c;
                    switch(cls){
                        case 0: c = std::make_shared<epithelial_cell>(nodes, faces, id, types[0]); break;
                        case 1: c = std::make_shared<ecm_cell>(nodes, faces, id, types[1]); break;
                        case 2: c = std::make_shared<lumen_cell>(nodes, faces, id, types[2]); break;
                        case 3: c = std::make_shared<nucleus_cell>(nodes, faces, id, types[3]); break;
                        case 4: c = std::make_shared<static_cell>(nodes, faces, id, types[4]); break;
                        default: c = std::make_shared<cell>(nodes, faces, id, nullptr); break;
                    }
                    cell_tester::set_ids(c);
                    cell_tester::free_slots(c, fn, ff);
                    cells.push_back(c);
                }
                unlink(cell_path.c_str());
                if(w[0] == "pop") mesh_writer::write(cell_path, face_path, cells);          // what solver::save_mesh calls
                else mesh_writer::write_cell_data_file(cell_path, cells);                   // the public overload (compacts the cells itself)
                written = true;
                for(auto& c: cells) c->clear_data();
            }
            else if(!w.empty() && w[0] == "meshes"){
                const unsigned nm = nextu();
                std::vector<mesh> ms(nm);
                for(auto& m: ms){
                    const unsigned np = nextu();
                    for(unsigned i = 0; i < np; i++) m.node_pos_lst.push_back(nextd());
                    const unsigned nf = nextu();
                    for(unsigned i = 0; i < nf; i++){ const unsigned ar = nextu(); std::vector<unsigned> f; for(unsigned j = 0; j < ar; j++) f.push_back(nextu()); m.face_point_ids.push_back(f); }
                }
                unlink(cell_path.c_str());
                mesh_writer::write_cell_data_file(cell_path, ms);
                written = true;
            }
            else ans = "bad-op";
        }
        catch(std::exception const& e){ ans = "wexc " + demangle(typeid(e).name()) + " " + clean(e.what()); }
        if(written){
            const std::string bytes = slurp(cell_path);
            try{
                mesh_reader r(cell_path, false);
                const std::vector<mesh> ms = r.read();
                std::vector<short> ty;
                std::string tys;
                try{ ty = r.get_cell_types(); } catch(std::exception const& e){ tys = std::string(" texc ") + demangle(typeid(e).name()) + " " + clean(e.what()); }
                ans = "ok file " + to_hex_bytes(bytes) + " read " + dump_meshes(ms, ty) + tys;
            }
            catch(std::exception const& e){ ans = "rexc " + demangle(typeid(e).name()) + " " + clean(e.what()) + " file " + to_hex_bytes(bytes); }
        }
        fprintf(out, "%s\n", ans.c_str());
        fflush(out);
    }
    unlink(cell_path.c_str()); unlink(face_path.c_str()); rmdir(dir.c_str());
    return 0;
}
