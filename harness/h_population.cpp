// C08 harness: drives the REAL solver (solver::run_iteration with the real cell_divider, local mesh
// refiner, contact model, polarisation, time integration and removal) on small populations and prints,
// at three points of every iteration, everything the property talks about:
//   pt=0 "div"  right after cell_divider::run          (virtual update_face_types() of the first probe cell)
//   pt=1 "use"  right after the contact phase          (virtual special_polarization_update() of the first probe cell)
//   pt=2 "end"  after run_iteration returned           (solver::get_cell_lst())
//   pt=3 "init" after the solver constructor
// Probe cells are epithelial cells of a harness subclass that overrides only virtual entry points and
// forwards to epithelial_cell; the counter max_cell_id_ is read through a subclass of solver (protected member).
//
// Request (one line):  scen key=value ...     keys: mesh n nx gap lmin cutoff iters sp threads axis kinds nft sched
// Answer (several lines): "obs ..." (all natural numbers), "pos ..." (hex doubles, pt=1 only), "ev ...", then "done <status>".
#include "proto.hpp"
#include <map>
#include <set>
#include <cmath>
#include <algorithm>
#include <unistd.h>
#include <csignal>
#include "solver.hpp"
#include "mesh_reader.hpp"
#include "simulation_initializer.hpp"
#include "epithelial_cell.hpp"
#include "ecm_cell.hpp"
#include "lumen_cell.hpp"
#include "nucleus_cell.hpp"
#include "static_cell.hpp"

// friend of cell (declared in cell.hpp): reach protected members without touching /repo
class cell_tester {
public:
    static void set_type(cell& c, cell_type_param_ptr p){ c.cell_type_ = p; }
    static void set_division_volume(cell& c, double v){ c.division_volume_ = v; }
    static double division_volume(const cell& c){ return c.division_volume_; }
};

namespace {
struct attempt { const cell* mother; cell_ptr d; };
std::vector<attempt> g_attempts;          // get_cell_same_type() calls of this iteration
std::vector<cell_ptr> g_keep;             // every cell object ever seen (keeps addresses unique)
std::map<const cell*, unsigned> g_obj;    // address -> object number (first-seen order)
bool g_div_fired = false, g_use_fired = false;
bool g_axis_fixed = false; vec3 g_axis(1., 0., 0.);
int g_iter = 0;
class probe_solver;
probe_solver* g_solver = nullptr;

unsigned obj_of(const cell_ptr& c){
    auto it = g_obj.find(c.get());
    if(it != g_obj.end()) return it->second;
    unsigned k = g_obj.size();
    g_obj[c.get()] = k; g_keep.push_back(c);
    return k;
}

void print_state(int it, int pt, const std::vector<cell_ptr>& lst, unsigned counter, bool positions){
    std::ostringstream o;
    o << "obs " << it << ' ' << pt << ' ' << lst.size() << ' ' << counter;
    for(const cell_ptr& c : lst){
        if(c == nullptr){ o << " 0 0 0 0 0 0 0 0"; continue; }   // cannot happen with the real list; keeps the stream well-formed
        const auto& nl = c->get_node_lst(); const auto& fl = c->get_face_lst();
        const auto ct = c->get_cell_type();
        o << ' ' << obj_of(c) << ' ' << c->get_id() << ' ' << c->get_local_id() << ' ' << (ct ? ct->global_type_id_ : 99)
          << ' ' << (ct ? ct->face_types_.size() : 0) << ' ' << (c->is_static() ? 1 : 0) << ' ' << nl.size() << ' ' << fl.size();
        for(const node& n : nl){
            o << ' ' << n.get_local_id() << ' ' << (n.is_used() ? 1 : 0);
            if(n.is_coupled()){ auto [cc, nn] = n.get_coupled_node(); o << " 1 " << cc << ' ' << nn; }
            else o << " 0 0 0";
        }
        for(const face& f : fl){
            cell_ptr ow = f.get_owner_cell();
            o << ' ' << (f.is_used() ? 1 : 0) << ' ' << f.get_local_face_type_id() << ' ' << (ow ? obj_of(ow) + 1 : 0)
              << ' ' << f.n1_id() << ' ' << f.n2_id() << ' ' << f.n3_id();
        }
    }
    std::cout << o.str() << '\n';
    if(positions){
        std::ostringstream q;
        q << "pos " << it << ' ' << pt;
        for(const cell_ptr& c : lst) for(const node& n : c->get_node_lst())
            q << ' ' << vproto::to_hex(n.pos().dx()) << ' ' << vproto::to_hex(n.pos().dy()) << ' ' << vproto::to_hex(n.pos().dz());
        std::cout << q.str() << '\n';
    }
    std::cout.flush();
}

class probe_solver : public solver {
public:
    using solver::solver;
    unsigned counter() const { return max_cell_id_; }
    unsigned iteration() const { return iteration_; }
};

void hook_div(){
    if(g_div_fired || g_solver == nullptr) return;
    g_div_fired = true;
    print_state(g_iter, 0, g_solver->get_cell_lst(), g_solver->counter(), false);
}
void hook_use(const std::vector<cell_ptr>& lst){
    if(g_use_fired || g_solver == nullptr) return;
    g_use_fired = true;
    print_state(g_iter, 1, lst, g_solver->counter(), true);
}

class probe_epi : public epithelial_cell {
public:
    probe_epi(const mesh& m, unsigned id, cell_type_param_ptr t) noexcept : epithelial_cell(m, id, t) {}
    cell_ptr get_cell_same_type(const mesh& m) noexcept(false) override {
        auto d = std::make_shared<probe_epi>(m, cell_id_, cell_type_);   // what epithelial_cell does, with the probe class
        g_attempts.push_back({this, d});
        return d;
    }
    void update_face_types() noexcept override { hook_div(); epithelial_cell::update_face_types(); }
    void special_polarization_update(const std::vector<cell_ptr>& l) noexcept override { hook_use(l); epithelial_cell::special_polarization_update(l); }
    vec3 get_cell_division_axis() const noexcept override { return g_axis_fixed ? g_axis : epithelial_cell::get_cell_division_axis(); }
};

// ---------------------------------------------------------------- meshes
mesh translated(const mesh& m, double dx, double dy, double dz){
    mesh r = m;
    for(size_t i = 0; i < r.node_pos_lst.size(); i += 3){ r.node_pos_lst[i] += dx; r.node_pos_lst[i+1] += dy; r.node_pos_lst[i+2] += dz; }
    return r;
}
void bbox(const mesh& m, double lo[3], double hi[3]){
    for(int k = 0; k < 3; k++){ lo[k] = 1e300; hi[k] = -1e300; }
    for(size_t i = 0; i < m.node_pos_lst.size(); i++){ int k = i % 3; lo[k] = std::min(lo[k], m.node_pos_lst[i]); hi[k] = std::max(hi[k], m.node_pos_lst[i]); }
}
// subdivided icosahedron of the given radius, faces wound outwards
mesh icosphere(int level, double radius){
    const double t = (1.0 + std::sqrt(5.0)) / 2.0;
    std::vector<std::array<double,3>> v = {{-1,t,0},{1,t,0},{-1,-t,0},{1,-t,0},{0,-1,t},{0,1,t},{0,-1,-t},{0,1,-t},{t,0,-1},{t,0,1},{-t,0,-1},{-t,0,1}};
    std::vector<std::array<unsigned,3>> f = {{0,11,5},{0,5,1},{0,1,7},{0,7,10},{0,10,11},{1,5,9},{5,11,4},{11,10,2},{10,7,6},{7,1,8},
                                             {3,9,4},{3,4,2},{3,2,6},{3,6,8},{3,8,9},{4,9,5},{2,4,11},{6,2,10},{8,6,7},{9,8,1}};
    auto norm = [](std::array<double,3>& p){ double l = std::sqrt(p[0]*p[0]+p[1]*p[1]+p[2]*p[2]); for(auto& x : p) x /= l; };
    for(auto& p : v) norm(p);
    for(int l = 0; l < level; l++){
        std::map<std::pair<unsigned,unsigned>, unsigned> mid;
        auto midpoint = [&](unsigned a, unsigned b){
            auto key = std::make_pair(std::min(a,b), std::max(a,b));
            auto it = mid.find(key); if(it != mid.end()) return it->second;
            std::array<double,3> p = {(v[a][0]+v[b][0])/2, (v[a][1]+v[b][1])/2, (v[a][2]+v[b][2])/2}; norm(p);
            v.push_back(p); mid[key] = v.size() - 1; return (unsigned)(v.size() - 1);
        };
        std::vector<std::array<unsigned,3>> g;
        for(auto& tr : f){
            unsigned a = midpoint(tr[0], tr[1]), b = midpoint(tr[1], tr[2]), c = midpoint(tr[2], tr[0]);
            g.push_back({tr[0], a, c}); g.push_back({tr[1], b, a}); g.push_back({tr[2], c, b}); g.push_back({a, b, c});
        }
        f = g;
    }
    mesh m;
    for(auto& p : v){ m.node_pos_lst.push_back(p[0]*radius); m.node_pos_lst.push_back(p[1]*radius); m.node_pos_lst.push_back(p[2]*radius); }
    for(auto& tr : f){
        // outward: (b-a)x(c-a) . a > 0
        const auto &a = v[tr[0]], &b = v[tr[1]], &c = v[tr[2]];
        double ux=b[0]-a[0], uy=b[1]-a[1], uz=b[2]-a[2], wx=c[0]-a[0], wy=c[1]-a[1], wz=c[2]-a[2];
        double nx=uy*wz-uz*wy, ny=uz*wx-ux*wz, nz=ux*wy-uy*wx;
        if(nx*a[0]+ny*a[1]+nz*a[2] > 0) m.face_point_ids.push_back({tr[0], tr[1], tr[2]});
        else m.face_point_ids.push_back({tr[0], tr[2], tr[1]});
    }
    return m;
}

std::map<std::string, std::string> parse_kv(const std::vector<std::string>& w){
    std::map<std::string, std::string> kv;
    for(size_t i = 1; i < w.size(); i++){ auto p = w[i].find('='); if(p != std::string::npos) kv[w[i].substr(0, p)] = w[i].substr(p + 1); }
    return kv;
}
std::vector<std::string> split_on(const std::string& s, char sep){
    std::vector<std::string> out; std::string cur;
    for(char c : s){ if(c == sep){ out.push_back(cur); cur.clear(); } else cur += c; }
    if(!cur.empty() || !s.empty()) out.push_back(cur);
    return out;
}
struct sched_item { int it; unsigned pos; char act; };

cell_type_param_ptr make_type(short kind, unsigned nft){
    auto ct = std::make_shared<cell_type_parameters>();
    static const char* names[] = {"epithelial", "ecm", "lumen", "nucleus", "static"};
    ct->name_ = names[kind % 5];
    ct->global_type_id_ = kind;
    ct->mass_density_ = 1e3; ct->bulk_modulus_ = 1e4; ct->initial_pressure_ = 0; ct->max_pressure_ = 1e20;
    ct->avg_growth_rate_ = 0; ct->std_growth_rate_ = 0; ct->target_isoperimetric_ratio_ = 150;
    ct->angle_regularization_factor_ = 0; ct->area_elasticity_modulus_ = 0; ct->surface_coupling_max_curvature_ = 1e20;
    ct->avg_division_vol_ = 1e20; ct->std_division_vol_ = 0; ct->min_vol_ = 1e-30;
    for(unsigned k = 0; k < nft; k++){
        face_type_parameters ft; ft.name_ = "ft" + std::to_string(k); ft.face_type_global_id_ = k;
        ft.adherence_strength_ = 0; ft.repulsion_strength_ = 2e9; ft.surface_tension_ = (k == 0 ? 1e-3 : 5e-4); ft.bending_modulus_ = 0;
        ct->add_face_type(ft);
    }
    return ct;
}

cell_ptr make_cell(short kind, const mesh& m, unsigned id, cell_type_param_ptr ct){
    switch(kind){
        case 0: return std::make_shared<probe_epi>(m, id, ct);
        case 1: return std::make_shared<ecm_cell>(m, id, ct);
        case 2: return std::make_shared<lumen_cell>(m, id, ct);
        case 3: return std::make_shared<nucleus_cell>(m, id, ct);
        default: return std::make_shared<static_cell>(m, id, ct);
    }
}

std::string run_scenario(const std::map<std::string, std::string>& kv){
    auto get = [&](const char* k, const char* d){ auto it = kv.find(k); return it == kv.end() ? std::string(d) : it->second; };
    const std::string mesh_name = get("mesh", "cube");
    const unsigned n = std::stoul(get("n", "4")), nx = std::max(1ul, std::stoul(get("nx", "2")));
    const double gap = std::stod(get("gap", "1e-6")), lmin = std::stod(get("lmin", "4e-6")), cutoff = std::stod(get("cutoff", "1.2e-6"));
    const int iters = std::stoi(get("iters", "6")), threads = std::stoi(get("threads", "1"));
    const double sp = std::stod(get("sp", "1"));
    g_axis_fixed = get("axis", "0") != "0";
    if(g_axis_fixed){ auto a = split_on(get("axis", "0"), ','); if(a.size() == 3){ g_axis = vec3(std::stod(a[0]), std::stod(a[1]), std::stod(a[2])).normalize(); } else g_axis = vec3(0.8, 0.5, 0.33).normalize(); }
    std::vector<short> kinds; for(auto& s : split_on(get("kinds", "0"), ',')) kinds.push_back((short)std::stoi(s));
    std::vector<unsigned> nfts; for(auto& s : split_on(get("nft", "2"), ',')) nfts.push_back(std::stoul(s));
    std::vector<sched_item> sched;
    if(kv.count("sched") && !kv.at("sched").empty())
        for(auto& s : split_on(kv.at("sched"), ',')){ auto p = split_on(s, ':'); if(p.size() == 3) sched.push_back({std::stoi(p[0]), (unsigned)std::stoul(p[1]), p[2][0]}); }

    // base mesh
    mesh base;
    if(mesh_name == "cube" || mesh_name == "sphere"){
        mesh_reader rd(std::string(PROJECT_SOURCE_DIR) + "/data/input_meshes/" + mesh_name + ".vtk", false);
        base = rd.read().at(0);
    }
    else if(mesh_name == "ico1") base = icosphere(1, 2.0 * lmin * 1.2);
    else if(mesh_name == "ico2") base = icosphere(2, 4.0 * lmin * 1.2);
    else if(mesh_name == "ico3") base = icosphere(3, 8.0 * lmin * 1.2);
    else return "bad-mesh";
    double lo[3], hi[3]; bbox(base, lo, hi);
    base = translated(base, -lo[0], -lo[1], -lo[2]);
    const double sx = hi[0] - lo[0], sy = hi[1] - lo[1], sz = hi[2] - lo[2];

    g_attempts.clear(); g_keep.clear(); g_obj.clear(); g_solver = nullptr;
    std::vector<cell_type_param_ptr> types;
    for(unsigned i = 0; i < n; i++) types.push_back(make_type(kinds[i % kinds.size()], nfts[i % nfts.size()]));

    global_simulation_parameters sim;
    sim.input_mesh_path_ = std::string(PROJECT_SOURCE_DIR) + "/data/input_meshes/cube.vtk";
    sim.output_folder_path_ = "/tmp/c08_out_" + std::to_string((long)getpid());
    sim.damping_coefficient_ = 2.0e-09; sim.simulation_duration_ = 1.0; sim.sampling_period_ = sp; sim.time_step_ = 1.0e-07;
    sim.min_edge_len_ = lmin; sim.contact_cutoff_adhesion_ = cutoff; sim.contact_cutoff_repulsion_ = cutoff;
    sim.enable_edge_swap_operation_ = false; sim.perform_initial_triangulation_ = false;

    // admissibility of the cell types is decided by the REAL start-up code (simulation_initializer::run),
    // exactly as main.cpp and the tests go through it; a rejected parameter set is not a scenario
    try{ simulation_initializer gate(sim, types, false); }
    catch(const intialization_exception& e){ std::string st = std::string("rejected ") + e.what(); for(auto& ch : st) if(ch == '\n') ch = ' '; return st; }

    bool unstable = false;
    std::vector<cell_ptr> cells;
    for(unsigned i = 0; i < n; i++){
        const short kind = kinds[i % kinds.size()];
        const unsigned ix = i % nx, iy = (i / nx) % nx, iz = i / (nx * nx);
        mesh m = translated(base, ix * (sx + gap), iy * (sy + gap), iz * (sz + gap));
        cell_ptr c = make_cell(kind, m, i, types[i]);
        c->initialize_cell_properties();
        cells.push_back(c);
    }

    {
        // the solver is deliberately never destroyed: ~solver deletes its writers/contact model through base
        // pointers without virtual destructors (a finding of another property), which would end the run
        probe_solver& S = *(new probe_solver(sim, cells, threads, true, false));
        g_solver = &S;
        cells.clear();
        print_state(0, 3, S.get_cell_lst(), S.counter(), false);
        size_t n0_nodes = 0; for(const auto& c : S.get_cell_lst()) n0_nodes += c->get_node_lst().size();
        for(int it = 0; it < iters && S.get_cell_lst().size() > 0; it++){
            g_iter = it; g_div_fired = g_use_fired = false; g_attempts.clear();
            // scheduled parameter changes that force an event at a chosen list position
            const auto& lst = S.get_cell_lst();
            for(const auto& s : sched) if(s.it == it){
                cell_ptr c = lst[s.pos % lst.size()];
                if(s.act == 'R'){
                    // its own copy of the cell type with a minimum volume above any volume: the cell is below it at the end of
                    // this iteration.  The target volume follows the minimum volume, so the pressure is capped to keep the
                    // cell from blowing up during the one iteration it still lives.
                    auto t = std::make_shared<cell_type_parameters>(*c->get_cell_type()); t->min_vol_ = 1e3; t->max_pressure_ = 10.; cell_tester::set_type(*c, t);
                }
                else if(s.act == 'D'){ cell_tester::set_division_volume(*c, 0.); }
            }
            std::vector<cell_ptr> before = lst;
            for(auto& c : before) obj_of(c);
            std::ostringstream rdy; rdy << "rdy " << it << ' ' << (S.iteration() % 5 == 0 ? 1 : 0);
            for(auto& c : before) rdy << ' ' << (c->is_ready_to_divide() ? 1 : 0);
            std::cout << rdy.str() << '\n'; std::cout.flush();
            S.run_iteration();
            // division attempts of this iteration: a daughter whose id differs from the id it was constructed with got a fresh id
            std::ostringstream ev; ev << "ev " << it << ' ' << g_attempts.size() / 2;
            for(size_t a = 0; a + 1 < g_attempts.size(); a += 2){
                const auto& A = g_attempts[a]; const auto& B = g_attempts[a + 1];
                ev << ' ' << g_obj[A.mother] << ' ' << obj_of(A.d) << ' ' << obj_of(B.d) << ' ' << A.d->get_id() << ' ' << B.d->get_id()
                   << ' ' << A.d->get_node_lst().size() << ' ' << B.d->get_node_lst().size();
            }
            std::cout << ev.str() << '\n';
            print_state(it, 2, S.get_cell_lst(), S.counter(), false);
            size_t tot = 0; for(const auto& c : S.get_cell_lst()) tot += c->get_node_lst().size();
            if(tot > 40 * n0_nodes + 4000){ unstable = true; break; }
        }
        g_solver = nullptr;
    }
    std::error_code ec; std::filesystem::remove_all(sim.output_folder_path_, ec);
    g_keep.clear(); g_obj.clear(); g_attempts.clear();
    return unstable ? "unstable" : "ok";
}
}

// a scenario whose mechanics run away (the refinement loop of an exploding mesh does not end) is cut off:
// the answer "done timeout" ends the scenario, the process exits and the caller restarts with the next one
extern "C" void on_alarm(int){
    const char msg[] = "\ndone timeout\n";
    ssize_t r = write(1, msg, sizeof(msg) - 1); (void)r;
    _exit(0);
}

int main(){
    std::ios::sync_with_stdio(false);
    std::signal(SIGALRM, on_alarm);
    std::string line;
    while(std::getline(std::cin, line)){
        auto w = vproto::split(line);
        if(w.empty() || w[0] != "scen"){ std::cout << "done bad-op\n"; std::cout.flush(); continue; }
        std::string st;
        alarm(25);
        try{ st = run_scenario(parse_kv(w)); }
        catch(const std::exception& e){ st = std::string("exception ") + e.what(); for(auto& ch : st) if(ch == '\n') ch = ' '; }
        alarm(0);
        std::cout << "done " << st << '\n'; std::cout.flush();
    }
    return 0;
}
