// C17 harness: runs the REAL start-up path of /repo in-process, catching std::exception the way
// main.cpp does, on the files given on the request line (bytes travel as hex).
//
//   startup <hex xml> <hex mesh>   simulation_initializer sim_init(path)   (exactly main.cpp's call; the text
//                                  @MESH@ inside the xml is replaced by the path the mesh bytes were written to)
//   reader  <hex mesh>             mesh_reader r(path); r.read(); r.get_cell_types();  + dump of what was read
//   params  <hex xml>              parameter_reader p(path); read_numerical_parameters(); read_biomechanical_parameters()
//
// Answer (one line, on the ORIGINAL stdout; the simulator's own chatter on stdout/stderr is discarded):
//   ok <dump> | exc <demangled dynamic type> <first 60 chars of what(), non-alphanumerics as '_'>
// followed by " rss=<peak resident kB>".  A crash / abort / sanitizer report / alarm kills the process:
// the caller sees a missing answer for that request and classifies by exit status and stderr.
#include "proto.hpp"
#include <cxxabi.h>
#include <typeinfo>
#include <unistd.h>
#include <fcntl.h>
#include <sys/resource.h>
#include <sys/stat.h>
#include <fstream>
#include <csignal>

#include "simulation_initializer.hpp"
#include "mesh_reader.hpp"
#include "parameter_reader.hpp"

static std::string unhex(const std::string& h){
    std::string out;
    if(h == "-") return out;
    out.reserve(h.size() / 2);
    auto v = [](char c) -> int { return (c >= '0' && c <= '9') ? c - '0' : (c >= 'a' && c <= 'f') ? c - 'a' + 10 : (c >= 'A' && c <= 'F') ? c - 'A' + 10 : 0; };
    for(size_t i = 0; i + 1 < h.size(); i += 2) out.push_back(static_cast<char>(v(h[i]) * 16 + v(h[i+1])));
    return out;
}

static std::string demangle(const char* n){
    int st = 0;
    char* d = abi::__cxa_demangle(n, nullptr, nullptr, &st);
    std::string s = (st == 0 && d) ? d : n;
    free(d);
    return s;
}

static std::string clean(const char* w){
    std::string s;
    for(const char* p = w; *p && s.size() < 60; ++p){
        const unsigned char c = static_cast<unsigned char>(*p);
        s.push_back(std::isalnum(c) ? static_cast<char>(c) : '_');
    }
    return s.empty() ? "_" : s;
}

static void write_file(const std::string& path, const std::string& bytes){
    std::ofstream f(path.c_str(), std::ios::binary | std::ios::trunc);
    f.write(bytes.data(), static_cast<std::streamsize>(bytes.size()));
}

static long peak_rss_kb(){ struct rusage ru; getrusage(RUSAGE_SELF, &ru); return ru.ru_maxrss; }

static std::string dump_meshes(const std::vector<mesh>& ms, const std::vector<short>& types){
    std::ostringstream o;
    o << "types " << types.size();
    for(short t: types) o << ' ' << t;
    o << " cells " << ms.size();
    for(const mesh& m: ms){
        o << " nodes " << m.node_pos_lst.size();
        for(double x: m.node_pos_lst) o << ' ' << vproto::to_hex(x);
        o << " faces " << m.face_point_ids.size();
        for(const auto& f: m.face_point_ids){ o << ' ' << f.size(); for(unsigned i: f) o << ' ' << i; }
    }
    return o.str();
}

int main(int argc, char** argv){
    // answers go to the original stdout; what the simulator prints on stdout goes to /dev/null
    // (stderr is left alone: the caller captures it, sanitizer reports arrive there)
    const int out_fd = dup(1);
    FILE* out = fdopen(out_fd, "w");
    const int devnull = open("/dev/null", O_WRONLY);
    dup2(devnull, 1);
    unsigned per_case_seconds = 20;
    if(argc > 1) per_case_seconds = static_cast<unsigned>(std::atoi(argv[1]));

    char tmpl[] = "/tmp/verif_startup_XXXXXX";
    const char* dir_c = mkdtemp(tmpl);
    if(!dir_c){ fprintf(out, "fatal mkdtemp\n"); return 2; }
    const std::string dir = dir_c;
    const std::string mesh_path = dir + "/m.vtk", xml_path = dir + "/p.xml";

    std::string line;
    while(std::getline(std::cin, line)){
        auto w = vproto::split(line);
        std::string ans;
        if(w.empty()){ fprintf(out, "bad-op\n"); fflush(out); continue; }
        alarm(per_case_seconds);
        try{
            if(w[0] == "startup" && w.size() == 3){
                std::string xml = unhex(w[1]);
                for(size_t p = xml.find("@MESH@"); p != std::string::npos; p = xml.find("@MESH@", p)) xml.replace(p, 6, mesh_path);
                write_file(xml_path, xml);
                write_file(mesh_path, unhex(w[2]));
                simulation_initializer sim_init(xml_path);              // as in main.cpp
                std::ostringstream o;
                o << "ok cells " << sim_init.get_cell_lst().size();
                for(const auto& c: sim_init.get_cell_lst()) o << ' ' << (c ? static_cast<long>(c->get_nb_of_faces()) : -1L);
                ans = o.str();
            }
            else if(w[0] == "reader" && w.size() == 2){
                write_file(mesh_path, unhex(w[1]));
                mesh_reader r(mesh_path, true);
                const std::vector<mesh> ms = r.read();
                const std::vector<short> ty = r.get_cell_types();
                ans = "ok " + dump_meshes(ms, ty);
            }
            else if(w[0] == "params" && w.size() == 2){
                write_file(xml_path, unhex(w[1]));
                parameter_reader p(xml_path);
                auto g = p.read_numerical_parameters();
                auto ct = p.read_biomechanical_parameters();
                ans = "ok types " + std::to_string(ct.size());
            }
            else ans = "bad-op";
        }
        catch(std::exception const& e){                                   // what main.cpp catches and reports
            ans = "exc " + demangle(typeid(e).name()) + " " + clean(e.what());
        }
        alarm(0);
        fprintf(out, "%s rss=%ld\n", ans.c_str(), peak_rss_kb());
        fflush(out);
    }
    unlink(mesh_path.c_str()); unlink(xml_path.c_str()); rmdir(dir.c_str());
    return 0;
}
