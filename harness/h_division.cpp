// C09 harness: drives the REAL cell_divider of /repo in-process.
//  (a) stage-wise: add_intersection_points, add_point_to_face, divide_faces, initial_triangulation::coarse_triangulation,
//      map_points_to_xy_plane, triangulate_division_interface (opaque: its result is dumped and fed back through `setD`),
//      map_points_to_division_plane, create_daughter_cells  -- all public static -- on the mesh of the request lines;
//  (b) end-to-end: cell_divider::divide_cell on one cell and cell_divider::run on a population, with the division axis
//      chosen by the request (subclass of epithelial_cell overriding the virtual get_cell_division_axis()).
// One request line -> one answer line.  Doubles travel as 16-hex-digit bit patterns.  Format mirrored by lean/Driver/C09.lean.
#include "proto.hpp"
#include <map>
#include <set>
#include <cmath>
#include <algorithm>
#include <optional>
#include <omp.h>
#include "cell.hpp"
#include "epithelial_cell.hpp"
#include "cell_divider.hpp"
#include "initial_triangulation.hpp"
#include "local_mesh_refiner.hpp"
#include "custom_exception.hpp"
#if __has_include("verif_hooks.hpp")
#include "verif_hooks.hpp"       // hook H2 (fixes/H2-hook-seed.diff): fixed seed of the clock-seeded generators
#define HAVE_HOOK_H2 1
#endif

using vproto::to_hex; using vproto::from_hex;

static std::string hv(const vec3& v){ return to_hex(v.dx()) + " " + to_hex(v.dy()) + " " + to_hex(v.dz()); }

// friend of cell / face / node (declared in the headers of /repo)
class cell_tester {
public:
    static std::vector<node>& nodes(cell& c){ return c.node_lst_; }
    static std::vector<face>& faces(cell& c){ return c.face_lst_; }
    static std::vector<unsigned>& free_nodes(cell& c){ return c.free_node_queue_; }
    static std::vector<unsigned>& free_faces(cell& c){ return c.free_face_queue_; }
    static const edge_set& edges(cell& c){ return c.edge_set_; }
    static double& target_volume(cell& c){ return c.target_volume_; }
    static double& division_volume(cell& c){ return c.division_volume_; }
    static double volume(cell& c){ return c.volume_; }
    static unsigned id(cell& c){ return c.cell_id_; }
    static bool node_used(const node& n){ return n.is_used_; }
    // what cell::apply_internal_forces does at the start of every iteration of the solver (after refine_meshes, before the next
    // call of cell_divider::run): the cached face areas, the cell area and the cell volume are those of the current mesh
    static void refresh_caches(cell& c){ c.update_all_face_normals_and_areas(); c.area_ = c.compute_area(); c.volume_ = c.compute_volume(); }
    static bool face_used(const face& f){ return f.is_used_; }
    // nodes (used flag + position) | faces (used flag + node ids) | free queues, as the vectors store them
    static std::string dump(cell& c, bool with_pos){
        std::ostringstream o;
        o << "N " << c.node_lst_.size();
        for(const node& n : c.node_lst_){ o << " ; " << (n.is_used_ ? 1 : 0); if(with_pos) o << ' ' << hv(n.pos_); }
        o << " | F " << c.face_lst_.size();
        for(const face& f : c.face_lst_){
            if(f.is_used_) o << " ; 1 " << f.n1_id_ << ' ' << f.n2_id_ << ' ' << f.n3_id_;
            else o << " ; 0";
        }
        o << " | FN";
        for(unsigned i : c.free_node_queue_) o << ' ' << i;
        if(c.free_node_queue_.empty()) o << ' ';
        o << " | FF";
        for(unsigned i : c.free_face_queue_) o << ' ' << i;
        if(c.free_face_queue_.empty()) o << ' ';
        return o.str();
    }
    static std::string dump_edges(cell& c){
        std::ostringstream o;
        o << "E " << c.edge_set_.size();
        for(const edge& e : c.edge_set_){
            o << " ; " << e.n1() << ' ' << e.n2() << ' ';
            if(e.is_manifold()) o << e.f1() << ' ' << e.f2(); else o << "- -";
        }
        return o.str();
    }
};

namespace {
bool g_axis_fixed = false; vec3 g_axis(1., 0., 0.);
struct attempt { const cell* mother; cell_ptr d; };
std::vector<attempt> g_attempts;

class probe_epi : public epithelial_cell {
public:
    probe_epi(const mesh& m, unsigned id, cell_type_param_ptr t) noexcept : epithelial_cell(m, id, t) {}
    cell_ptr get_cell_same_type(const mesh& m) noexcept(false) override {
        auto d = std::make_shared<probe_epi>(m, cell_id_, cell_type_);    // what epithelial_cell does, with the probe class
        g_attempts.push_back({this, d});
        return d;
    }
    vec3 get_cell_division_axis() const noexcept override { return g_axis_fixed ? g_axis : epithelial_cell::get_cell_division_axis(); }
};

cell_type_param_ptr make_type(short kind){
    auto ct = std::make_shared<cell_type_parameters>();
    ct->name_ = "epithelial"; ct->global_type_id_ = kind;
    ct->mass_density_ = 1e3; ct->bulk_modulus_ = 1e4; ct->initial_pressure_ = 0; ct->max_pressure_ = 1e20;
    ct->avg_growth_rate_ = 0; ct->std_growth_rate_ = 0; ct->target_isoperimetric_ratio_ = 150;
    ct->angle_regularization_factor_ = 0; ct->area_elasticity_modulus_ = 0; ct->surface_coupling_max_curvature_ = 1e20;
    ct->avg_division_vol_ = 1e20; ct->std_division_vol_ = 0; ct->min_vol_ = 1e-30;
    for(unsigned k = 0; k < 2; k++){
        face_type_parameters ft; ft.name_ = "ft" + std::to_string(k); ft.face_type_global_id_ = k;
        ft.adherence_strength_ = 0; ft.repulsion_strength_ = 2e9; ft.surface_tension_ = 1e-3; ft.bending_modulus_ = 0;
        ct->add_face_type(ft);
    }
    return ct;
}

std::string exc_name(const std::exception& e){
    if(dynamic_cast<const division_exception*>(&e)) return "division";
    if(dynamic_cast<const mesh_integrity_exception*>(&e)) return "integrity";
    if(dynamic_cast<const initial_triangulation_exception*>(&e)) return "initial_triangulation";
    if(dynamic_cast<const std::bad_optional_access*>(&e)) return "badopt";
    return std::string("other");
}

std::string dump_mesh_nodes(const mesh& m, size_t from){
    std::ostringstream o;
    const size_t n = m.node_pos_lst.size() / 3;
    o << "N " << (n >= from ? n - from : 0);
    for(size_t i = from; i < n; i++) o << " ; " << to_hex(m.node_pos_lst[3*i]) << ' ' << to_hex(m.node_pos_lst[3*i+1]) << ' ' << to_hex(m.node_pos_lst[3*i+2]);
    return o.str();
}
std::string dump_mesh_faces(const mesh& m, size_t from){
    std::ostringstream o;
    const size_t n = m.face_point_ids.size();
    o << "F " << (n >= from ? n - from : 0);
    for(size_t i = from; i < n; i++){ o << " ;"; for(unsigned x : m.face_point_ids[i]) o << ' ' << x; }
    return o.str();
}

// triangles of a cell as coordinate triples (for the oracle): "T k ; 9 hex ; ..."
std::string dump_geo(cell& c){
    std::ostringstream o;
    auto& nl = cell_tester::nodes(c); auto& fl = cell_tester::faces(c);
    size_t k = 0; for(const face& f : fl) if(cell_tester::face_used(f)) k++;
    o << "T " << k;
    for(const face& f : fl){
        if(!cell_tester::face_used(f)) continue;
        auto [a, b, d] = f.get_node_ids();
        o << " ; " << a << ' ' << b << ' ' << d << ' ' << hv(nl[a].pos()) << ' ' << hv(nl[b].pos()) << ' ' << hv(nl[d].pos());
    }
    return o.str();
}
std::string dump_summary(cell& c){
    std::ostringstream o;
    auto ct = c.get_cell_type();
    o << "id " << cell_tester::id(c) << " lid " << c.get_local_id() << " type " << (ct ? ct->global_type_id_ : 99)
      << " tv " << to_hex(cell_tester::target_volume(c)) << " vol " << to_hex(cell_tester::volume(c));
    return o.str();
}
}

int main(){
    std::ios::sync_with_stdio(false);
    omp_set_num_threads(1);
    std::string line;
    std::vector<double> pos; std::vector<std::vector<unsigned>> polys;
    std::shared_ptr<probe_epi> c;
    cell_type_param_ptr ctype = make_type(0);
    vec3 P(0,0,0), Nrm(0,0,1);
    mesh m; unsigned thr = 0, fthr = 0;
    vec3 translation; mat33 rotation;
    // population of the `round` requests
    std::vector<cell_ptr> pop; std::vector<const cell*> pop_obj;
    while(std::getline(std::cin, line)){
        auto w = vproto::split(line);
        if(w.empty()){ std::cout << "bad-op\n" << std::flush; continue; }
        try{
            // ------------------------------------------------------------ mesh of the request
            if(w[0] == "cell"){ pos.clear(); polys.clear(); c.reset(); std::cout << "ok\n"; }
            else if(w[0] == "seed" && w.size() == 2){
                #ifdef HAVE_HOOK_H2
                    simucell3d_verif::fixed_seed() = std::stoull(w[1]); std::cout << "ok\n";
                #else
                    std::cout << "nohook\n";
                #endif
            }
            else if(w[0] == "note"){ std::cout << "ok\n"; }      // annotation for the replay (what the following requests are)
            else if(w[0] == "n" && w.size() == 4){ for(int i = 1; i < 4; i++) pos.push_back(from_hex(w[i])); std::cout << "ok\n"; }
            else if(w[0] == "t" && w.size() >= 4){ std::vector<unsigned> f; for(size_t i = 1; i < w.size(); i++) f.push_back((unsigned) std::stoul(w[i])); polys.push_back(f); std::cout << "ok\n"; }
            else if(w[0] == "init" && w.size() == 1){
                mesh mm; mm.node_pos_lst = pos; mm.face_point_ids = polys;
                bool tri = !polys.empty(); for(auto& f : polys) if(f.size() != 3) tri = false;
                if(!tri){ std::cout << "bad-op\n" << std::flush; continue; }
                c = std::make_shared<probe_epi>(mm, 0u, ctype);
                try{ c->initialize_cell_properties(true); std::cout << "ok\n"; }
                catch(const std::exception& e){ c.reset(); std::cout << "err " << exc_name(e) << "\n"; }
            }
            else if(w[0] == "edges" && c){ std::cout << cell_tester::dump_edges(*c) << "\n"; }
            else if(w[0] == "state" && c){ std::cout << cell_tester::dump(*c, true) << "\n"; }
            else if(w[0] == "rebase" && c){ try{ c->rebase(); std::cout << "ok\n"; } catch(const std::exception& e){ std::cout << "err " << exc_name(e) << "\n"; } }
            else if(w[0] == "refine" && w.size() == 3 && c){
                local_mesh_refiner lmr(from_hex(w[1]), from_hex(w[2]), false);
                try{ lmr.refine_mesh(c); cell_tester::refresh_caches(*c); std::cout << "returned\n"; } catch(const std::exception& e){ std::cout << "threw " << exc_name(e) << "\n"; }
            }
            else if(w[0] == "centroid" && c){ std::cout << hv(c->compute_centroid()) << "\n"; }
            else if(w[0] == "plane" && w.size() == 7){
                P = vec3(from_hex(w[1]), from_hex(w[2]), from_hex(w[3])); Nrm = vec3(from_hex(w[4]), from_hex(w[5]), from_hex(w[6]));
                std::cout << "ok\n";
            }
            // ------------------------------------------------------------ the mesh object the stages work on, given directly
            else if(w[0] == "mesh"){ m = mesh(); m.node_pos_lst = pos; m.face_point_ids = polys; thr = (w.size() > 1 ? (unsigned) std::stoul(w[1]) : 0); fthr = (unsigned) polys.size(); std::cout << "ok\n"; }
            // ------------------------------------------------------------ stages
            else if(w[0] == "addpts" && c){
                thr = (unsigned) c->get_node_lst().size();
                try{
                    m = cell_divider::add_intersection_points(c, P, Nrm);
                    std::cout << "ok thr " << thr << " | " << dump_mesh_nodes(m, thr) << " | " << dump_mesh_faces(m, 0) << "\n";
                }catch(const std::exception& e){ std::cout << "err " << exc_name(e) << "\n"; }
            }
            else if(w[0] == "apf" && w.size() == 5){
                const unsigned f = (unsigned) std::stoul(w[1]);
                if(f >= m.face_point_ids.size()){ std::cout << "bad-op\n" << std::flush; continue; }
                try{
                    cell_divider::add_point_to_face(m, f, (unsigned) std::stoul(w[2]), (unsigned) std::stoul(w[3]), (unsigned) std::stoul(w[4]));
                    std::ostringstream o; o << "ok"; for(unsigned x : m.face_point_ids[f]) o << ' ' << x; std::cout << o.str() << "\n";
                }catch(const std::exception& e){ std::cout << "err " << exc_name(e) << "\n"; }
            }
            else if(w[0] == "divfaces"){
                try{ cell_divider::divide_faces(m, thr); fthr = (unsigned) m.face_point_ids.size(); std::cout << "ok " << dump_mesh_faces(m, 0) << "\n"; }
                catch(const std::exception& e){ std::cout << "err " << exc_name(e) << "\n"; }
            }
            else if(w[0] == "coarse"){
                // lines 102-110 of divide_cell: the polygon through all intersection points, then coarse_triangulation
                fthr = (unsigned) m.face_point_ids.size();
                const unsigned nbp = (unsigned)(m.node_pos_lst.size() / 3) - thr;
                std::vector<unsigned> ids(nbp); for(unsigned i = 0; i < nbp; i++) ids[i] = thr + i;
                m.face_point_ids.push_back(ids);
                initial_triangulation::coarse_triangulation(m);
                std::cout << "ok fthr " << fthr << " | " << dump_mesh_nodes(m, thr) << " | " << dump_mesh_faces(m, 0) << "\n";
            }
            else if(w[0] == "coarseonly"){
                initial_triangulation::coarse_triangulation(m);
                std::cout << "ok fthr " << fthr << " | " << dump_mesh_nodes(m, thr) << " | " << dump_mesh_faces(m, 0) << "\n";
            }
            else if(w[0] == "mapxy"){
                auto tr = cell_divider::map_points_to_xy_plane(m, thr, Nrm);
                translation = tr.first; rotation = tr.second;
                std::ostringstream o; o << "ok " << hv(translation);
                for(int i = 0; i < 3; i++){ auto r = rotation[i]; o << ' ' << to_hex(r[0]) << ' ' << to_hex(r[1]) << ' ' << to_hex(r[2]); }
                std::cout << o.str() << " | " << dump_mesh_nodes(m, thr) << "\n";
            }
            else if(w[0] == "tri" && w.size() == 2){
                try{
                    cell_divider::triangulate_division_interface(from_hex(w[1]), m, thr, fthr, Nrm);
                    std::cout << "ok " << dump_mesh_nodes(m, thr) << " | " << dump_mesh_faces(m, fthr) << "\n";
                }catch(const std::exception& e){ std::cout << "err " << exc_name(e) << "\n"; }
            }
            else if(w[0] == "setD"){
                // setD <np> <3*np hex> <nt> <3*nt ids> : replaces the nodes >= thr and the faces >= fthr of the mesh
                size_t k = 1; const size_t np = std::stoul(w.at(k++));
                if(w.size() < 2 + 3*np + 1){ std::cout << "bad-op\n" << std::flush; continue; }
                m.node_pos_lst.resize(3 * (size_t) thr);
                for(size_t i = 0; i < 3*np; i++) m.node_pos_lst.push_back(from_hex(w.at(k++)));
                const size_t nt = std::stoul(w.at(k++));
                if(w.size() != 3 + 3*np + 3*nt){ std::cout << "bad-op\n" << std::flush; continue; }
                m.face_point_ids.resize(fthr);
                for(size_t i = 0; i < nt; i++){ std::vector<unsigned> f; for(int j = 0; j < 3; j++) f.push_back((unsigned) std::stoul(w.at(k++))); m.face_point_ids.push_back(f); }
                std::cout << "ok\n";
            }
            else if(w[0] == "mapback"){
                cell_divider::map_points_to_division_plane(m, thr, translation, rotation);
                std::cout << "ok " << dump_mesh_nodes(m, thr) << "\n";
            }
            else if(w[0] == "daughters" && c){
                try{
                    auto [d1, d2] = cell_divider::create_daughter_cells(c, m, thr, fthr, Nrm, P);
                    std::cout << "ok D1 " << cell_tester::dump(*d1, false) << " | vol " << to_hex(cell_tester::volume(*d1)) << " tv " << to_hex(cell_tester::target_volume(*d1))
                              << " type " << d1->get_cell_type()->global_type_id_
                              << " || D2 " << cell_tester::dump(*d2, false) << " | vol " << to_hex(cell_tester::volume(*d2)) << " tv " << to_hex(cell_tester::target_volume(*d2))
                              << " type " << d2->get_cell_type()->global_type_id_ << "\n";
                }catch(const std::exception& e){ std::cout << "err " << exc_name(e) << "\n"; }
            }
            else if(w[0] == "side" && w.size() == 10){
                // the predicate of create_daughter_cells on one triangle given by coordinates
                std::vector<double> q; for(int i = 1; i < 10; i++) q.push_back(from_hex(w[i]));
                mesh mm; mm.node_pos_lst = q; mm.face_point_ids = {{0,1,2}};
                cell_ptr cc = std::make_shared<cell>(mm, 0u);
                std::cout << (cell_divider::face_side_wrt_plane(cc->get_face_lst()[0], cc, P, Nrm) ? "1" : "0") << "\n";
            }
            else if(w[0] == "epi" && w.size() == 7){
                std::vector<double> q; for(int i = 1; i < 7; i++) q.push_back(from_hex(w[i]));
                auto r = cell_divider::find_edge_plane_intersection(vec3(q[0],q[1],q[2]), vec3(q[3],q[4],q[5]), P, Nrm);
                if(r.has_value()) std::cout << "some " << hv(r.value()) << "\n"; else std::cout << "none\n";
            }
            // ------------------------------------------------------------ end to end: one cell
            else if(w[0] == "axis" && w.size() == 4){ g_axis_fixed = true; g_axis = vec3(from_hex(w[1]), from_hex(w[2]), from_hex(w[3])); std::cout << "ok\n"; }
            else if(w[0] == "axisfree"){ g_axis_fixed = false; std::cout << "ok\n"; }
            else if(w[0] == "divide" && w.size() == 3 && c){
                // divide <lmin> <tv> : sets the mother's target volume, then the real divide_cell
                const double lmin = from_hex(w[1]);
                cell_tester::target_volume(*c) = from_hex(w[2]);
                local_mesh_refiner lmr(lmin, 3. * lmin, false);
                const vec3 ctr = c->compute_centroid(); const vec3 ax = c->get_cell_division_axis();
                const std::string before = dump_geo(*c);
                const double vol0 = c->compute_volume();
                g_attempts.clear();
                auto res = cell_divider::divide_cell(c, lmin, lmr);
                std::ostringstream o;
                o << (res.has_value() ? "some" : "none") << " ctr " << hv(ctr) << " axis " << hv(ax) << " vol " << to_hex(vol0) << " mtv " << to_hex(cell_tester::target_volume(*c))
                  << " mtype " << c->get_cell_type()->global_type_id_ << " attempts " << g_attempts.size()
                  << " || before " << before << " || after " << dump_geo(*c);
                if(res.has_value()){
                    auto [d1, d2] = res.value();
                    o << " || d1 " << dump_summary(*d1) << " " << dump_geo(*d1) << " || d2 " << dump_summary(*d2) << " " << dump_geo(*d2);
                }
                std::cout << o.str() << "\n";
            }
            // ------------------------------------------------------------ end to end: a population through cell_divider::run
            else if(w[0] == "popclear"){ pop.clear(); pop_obj.clear(); std::cout << "ok\n"; }
            else if(w[0] == "poptake" && w.size() == 2 && std::stoul(w[1]) < pop.size()){
                c = std::dynamic_pointer_cast<probe_epi>(pop[std::stoul(w[1])]); std::cout << (c ? "ok\n" : "err notprobe\n"); }
            else if(w[0] == "popready"){ for(auto& cc : pop) cell_tester::division_volume(*cc) = 0.0; std::cout << "ok " << pop.size() << "\n"; }
            else if(w[0] == "popadd" && w.size() == 7){
                // popadd <dx dy dz> <ready 0|1> <id> <tv>: a copy of the request mesh, translated
                mesh mm; mm.node_pos_lst = pos; mm.face_point_ids = polys;
                const double d[3] = {from_hex(w[1]), from_hex(w[2]), from_hex(w[3])};
                for(size_t i = 0; i < mm.node_pos_lst.size(); i++) mm.node_pos_lst[i] += d[i % 3];
                auto cc = std::make_shared<probe_epi>(mm, (unsigned) std::stoul(w[5]), ctype);
                try{
                    cc->initialize_cell_properties(true);
                    cc->set_local_id(pop.size());
                    cell_tester::division_volume(*cc) = (w[4] == "1") ? 0.0 : 1e300;
                    cell_tester::target_volume(*cc) = from_hex(w[6]);
                    pop.push_back(cc); pop_obj.push_back(cc.get());
                    std::cout << "ok\n";
                }catch(const std::exception& e){ std::cout << "err " << exc_name(e) << "\n"; }
            }
            else if(w[0] == "round" && w.size() == 4){
                // round <lmin> <counter> <threads>
                const double lmin = from_hex(w[1]); unsigned counter = (unsigned) std::stoul(w[2]);
                omp_set_num_threads(std::max(1, std::stoi(w[3])));
                local_mesh_refiner lmr(lmin, 3. * lmin, false);
                std::vector<cell_ptr> before_lst = pop;
                std::vector<std::string> before; std::vector<double> tv0, vol0; std::vector<vec3> ctr, ax;
                for(auto& cc : pop){ before.push_back(dump_geo(*cc)); tv0.push_back(cell_tester::target_volume(*cc)); vol0.push_back(cc->compute_volume());
                                      ctr.push_back(cc->compute_centroid()); ax.push_back(cc->get_cell_division_axis()); }
                g_attempts.clear();
                cell_divider::run(pop, lmin, lmr, counter, false);
                omp_set_num_threads(1);
                std::ostringstream o;
                o << "ctr " << counter << " n " << pop.size();
                for(auto& cc : pop){
                    // tag: m<i> = the i-th cell of the list before the round; d<i> = a daughter built from mother i
                    std::string tag = "?";
                    for(size_t i = 0; i < before_lst.size(); i++) if(before_lst[i].get() == cc.get()) tag = "m" + std::to_string(i);
                    if(tag == "?"){
                        for(auto& a : g_attempts) if(a.d.get() == cc.get()){
                            for(size_t i = 0; i < before_lst.size(); i++) if(before_lst[i].get() == a.mother) tag = "d" + std::to_string(i);
                        }
                    }
                    o << " || " << tag << " " << dump_summary(*cc) << " " << dump_geo(*cc);
                }
                o << " ||| mothers " << before_lst.size();
                for(size_t i = 0; i < before_lst.size(); i++){
                    o << " || m" << i << " ctr " << hv(ctr[i]) << " axis " << hv(ax[i]) << " vol " << to_hex(vol0[i]) << " tv " << to_hex(tv0[i])
                      << " before " << before[i] << " after " << dump_geo(*before_lst[i]);
                }
                std::cout << o.str() << "\n";
            }
            else std::cout << "bad-op\n";
        }catch(const std::exception& ex){ std::cout << "err " << exc_name(ex) << "\n"; }
        std::cout.flush();
    }
    return 0;
}
