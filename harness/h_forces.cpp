// C02 harness: builds a cell from the mesh of a request line, runs the REAL cell::apply_internal_forces
// and, through the friend class cell_tester, each protected force term on its own, and prints the
// per-node forces (doubles as 16-hex-digit bit patterns).
//
// request : forces <nn> <nf> <nt> K maxP aem iso angf minvol growth tvol dt  nt*(tension bending)
//                  nn*(x y z)  nf*(a b c type)          -- doubles in hex, integers in decimal
// answer  : ok <faces_unchanged> P V A Atarget  then five blocks of nn*3 doubles:
//           all | pressure | tension+elasticity | bending | angle regularisation
#include "proto.hpp"
#include "cell.hpp"
#include <memory>
#include <cmath>

class cell_tester {
public:
    static void reset_forces(cell& c){ for(node& n : c.node_lst_) n.force_ = vec3(0., 0., 0.); }
    static void prelude(cell& c, double dt){
        // the statements of cell::apply_internal_forces that precede the force terms
        c.update_all_face_normals_and_areas();
        c.area_ = c.compute_area();
        c.volume_ = c.compute_volume();
        c.update_target_volume(dt);
        c.update_pressure();
    }
    static void run(const std::vector<std::string>& w){
        size_t k = 1;
        auto nextu = [&]() -> unsigned { return (unsigned) std::stoul(w.at(k++)); };
        auto nextd = [&]() -> double { return vproto::from_hex(w.at(k++)); };
        const unsigned nn = nextu(), nf = nextu(), nt = nextu();
        auto ct = std::make_shared<cell_type_parameters>();
        ct->name_ = "t"; ct->global_type_id_ = 0; ct->mass_density_ = 1000.;
        ct->bulk_modulus_ = nextd(); ct->max_pressure_ = nextd(); ct->area_elasticity_modulus_ = nextd();
        ct->target_isoperimetric_ratio_ = nextd(); ct->angle_regularization_factor_ = nextd(); ct->min_vol_ = nextd();
        const double growth = nextd(), tvol = nextd(), dt = nextd();
        for(unsigned t = 0; t < nt; t++){
            face_type_parameters ft; ft.name_ = "f" + std::to_string(t); ft.face_type_global_id_ = (short) t;
            ft.surface_tension_ = nextd(); ft.bending_modulus_ = nextd();
            ft.adherence_strength_ = 0.; ft.repulsion_strength_ = 0.;
            ct->add_face_type(ft);
        }
        std::vector<double> pos(3 * (size_t) nn);
        for(auto& x : pos) x = nextd();
        std::vector<unsigned> fid(3 * (size_t) nf);
        std::vector<unsigned short> ftype(nf);
        for(unsigned f = 0; f < nf; f++){
            fid[3*f] = nextu(); fid[3*f+1] = nextu(); fid[3*f+2] = nextu(); ftype[f] = (unsigned short) nextu();
            if(fid[3*f] >= nn || fid[3*f+1] >= nn || fid[3*f+2] >= nn || ftype[f] >= nt){ std::cout << "bad-op\n"; return; }
        }
        if(k != w.size()){ std::cout << "bad-op\n"; return; }
        std::shared_ptr<cell> c = std::make_shared<cell>(pos, fid, 0u, ct);
        try { c->initialize_cell_properties(true); }
        catch(const std::exception& e){ std::cout << "reject\n"; return; }
        bool unchanged = c->face_lst_.size() == nf && c->node_lst_.size() == nn;
        for(unsigned f = 0; unchanged && f < nf; f++){
            const face& F = c->face_lst_[f];
            unchanged = F.is_used() && F.n1_id_ == fid[3*f] && F.n2_id_ == fid[3*f+1] && F.n3_id_ == fid[3*f+2];
        }
        for(unsigned n = 0; unchanged && n < nn; n++) unchanged = c->node_lst_[n].is_used();
        if(unchanged) for(unsigned f = 0; f < nf; f++) c->face_lst_[f].set_face_type_id(ftype[f]);
        std::string out = "ok ";
        out += unchanged ? "1" : "0";
        auto dump = [&](){
            for(const node& n : c->node_lst_){
                out += ' '; out += vproto::to_hex(n.force_.dx());
                out += ' '; out += vproto::to_hex(n.force_.dy());
                out += ' '; out += vproto::to_hex(n.force_.dz());
            }
        };
        // 0: the public entry point, exactly as the solver calls it
        c->growth_rate_ = growth; c->target_volume_ = tvol; reset_forces(*c);
        c->apply_internal_forces(dt);
        out += ' '; out += vproto::to_hex(c->pressure_);
        out += ' '; out += vproto::to_hex(c->volume_);
        out += ' '; out += vproto::to_hex(c->area_);
        out += ' '; out += vproto::to_hex(c->target_area_);
        dump();
        // 1..4: one protected term at a time after the same prelude
        for(int term = 1; term <= 4; term++){
            c->growth_rate_ = growth; c->target_volume_ = tvol; reset_forces(*c);
            prelude(*c, dt);
            if(term == 1) c->apply_pressure_on_surface();
            if(term == 2) c->apply_surface_tension_and_membrane_elasticity();
            if(term == 3) c->apply_bending_forces();
            if(term == 4) c->regularize_all_face_angles();
            dump();
        }
        out += '\n';
        std::cout << out;
    }
};

int main(){
    std::ios::sync_with_stdio(false);
    std::string line;
    while(std::getline(std::cin, line)){
        auto w = vproto::split(line);
        if(w.empty() || w[0] != "forces" || w.size() < 16){ std::cout << "bad-op\n"; continue; }
        try { cell_tester::run(w); }
        catch(const std::exception& e){ std::cout << "bad-op\n"; }
    }
    return 0;
}
