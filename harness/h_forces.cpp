// C02 harness: builds a cell from the mesh of a request line, runs the REAL cell::apply_internal_forces
// and, through the friend class cell_tester, each protected force term on its own, and prints the
// per-node forces (doubles as 16-hex-digit bit patterns).
//
// request : forces <nn> <nf> <nt> K maxP aem iso angf minvol growth tvol dt  nt*(tension bending)
//                  nn*(x y z)  nf*(a b c type)          -- doubles in hex, integers in decimal
// answer  : ok <faces_unchanged> P V A Atarget  then five blocks of nn*3 doubles:
//           all | pressure | tension+elasticity | bending | angle regularisation
//
// request : refine <l_min> <l_max> <swap 0|1> <nn> <nf> <nt> …same fields…
//           builds the cell the same way, then runs the REAL local_mesh_refiner::refine_mesh(l_min, l_max) on it
//           (edge merges leave unused face / node slots behind until the next rebase) and computes the forces of
//           the refined cell, slots and all.
// answer  : okr <node slots> <face slots> <edges> P V A Atarget, the live mesh
//           node slots*(used x y z)  face slots*(used a b c type)  edges*(n1 n2 f1 f2) in edge_set_ order,
//           then the same five force blocks over the node slots.
#include "proto.hpp"
#include "cell.hpp"
#include "local_mesh_refiner.hpp"
#include <memory>
#include <cmath>

class cell_tester {
public:
    static void reset_forces(cell& c){ for(node& n : c.node_lst_) n.force_ = vec3(0., 0., 0.); }
    static void prelude(cell& c, double dt){
        // the statements of cell::apply_internal_forces that precede the force terms
        c.update_all_face_normals_and_areas();
        c.area_ = c.compute_area();
        c.volume_ = c.compute_volume();
        c.update_target_volume(dt);
        c.update_pressure();
    }
    static void run(const std::vector<std::string>& w, const bool refine){
        size_t k = 1;
        auto nextu = [&]() -> unsigned { return (unsigned) std::stoul(w.at(k++)); };
        auto nextd = [&]() -> double { return vproto::from_hex(w.at(k++)); };
        double l_min = 0., l_max = 0.; unsigned swap = 0;
        if(refine){ l_min = nextd(); l_max = nextd(); swap = nextu(); }
        const unsigned nn = nextu(), nf = nextu(), nt = nextu();
        auto ct = std::make_shared<cell_type_parameters>();
        ct->name_ = "t"; ct->global_type_id_ = 0; ct->mass_density_ = 1000.;
        ct->bulk_modulus_ = nextd(); ct->max_pressure_ = nextd(); ct->area_elasticity_modulus_ = nextd();
        ct->target_isoperimetric_ratio_ = nextd(); ct->angle_regularization_factor_ = nextd(); ct->min_vol_ = nextd();
        const double growth = nextd(), tvol = nextd(), dt = nextd();
        for(unsigned t = 0; t < nt; t++){
            face_type_parameters ft; ft.name_ = "f" + std::to_string(t); ft.face_type_global_id_ = (short) t;
            ft.surface_tension_ = nextd(); ft.bending_modulus_ = nextd();
            ft.adherence_strength_ = 0.; ft.repulsion_strength_ = 0.;
            ct->add_face_type(ft);
        }
        std::vector<double> pos(3 * (size_t) nn);
        for(auto& x : pos) x = nextd();
        std::vector<unsigned> fid(3 * (size_t) nf);
        std::vector<unsigned short> ftype(nf);
        for(unsigned f = 0; f < nf; f++){
            fid[3*f] = nextu(); fid[3*f+1] = nextu(); fid[3*f+2] = nextu(); ftype[f] = (unsigned short) nextu();
            if(fid[3*f] >= nn || fid[3*f+1] >= nn || fid[3*f+2] >= nn || ftype[f] >= nt){ std::cout << "bad-op\n"; return; }
        }
        if(k != w.size()){ std::cout << "bad-op\n"; return; }
        // As in a run, the cell is NOT initialised on the geometry the forces are computed for: its caches (face normals and areas,
        // area_, volume_, centroid) come from an affinely deformed copy (same orientation) and the nodes are moved to the requested
        // positions afterwards; apply_internal_forces has to refresh whatever it reads.
        std::vector<double> pos0(pos);
        for(size_t i = 0; i + 2 < pos0.size(); i += 3){ pos0[i] *= 1.25; pos0[i+1] *= 0.8; pos0[i+2] *= 1.125; }
        std::shared_ptr<cell> c = std::make_shared<cell>(pos0, fid, 0u, ct);
        try { c->initialize_cell_properties(true); }
        catch(const std::exception& e){ std::cout << "reject\n"; return; }
        if(c->node_lst_.size() == nn) for(unsigned n = 0; n < nn; n++) c->node_lst_[n].pos_ = vec3(pos[3*n], pos[3*n+1], pos[3*n+2]);
        bool unchanged = c->face_lst_.size() == nf && c->node_lst_.size() == nn;
        for(unsigned f = 0; unchanged && f < nf; f++){
            const face& F = c->face_lst_[f];
            unchanged = F.is_used() && F.n1_id_ == fid[3*f] && F.n2_id_ == fid[3*f+1] && F.n3_id_ == fid[3*f+2];
        }
        for(unsigned n = 0; unchanged && n < nn; n++) unchanged = c->node_lst_[n].is_used();
        if(unchanged) for(unsigned f = 0; f < nf; f++) c->face_lst_[f].set_face_type_id(ftype[f]);
        if(refine){
            if(!unchanged){ std::cout << "reject\n"; return; }
            try {
                local_mesh_refiner refiner(l_min, l_max, swap != 0);
                refiner.refine_mesh(c);
            } catch(const std::exception& e){ std::cout << "reject\n"; return; }
        }
        std::string out = refine ? "okr" : "ok ";
        if(!refine) out += unchanged ? "1" : "0";
        auto dump = [&](){
            for(const node& n : c->node_lst_){
                out += ' '; out += vproto::to_hex(n.force_.dx());
                out += ' '; out += vproto::to_hex(n.force_.dy());
                out += ' '; out += vproto::to_hex(n.force_.dz());
            }
        };
        // 0: the public entry point, exactly as the solver calls it
        c->growth_rate_ = growth; c->target_volume_ = tvol; reset_forces(*c);
        c->apply_internal_forces(dt);
        out += ' '; out += vproto::to_hex(c->pressure_);
        out += ' '; out += vproto::to_hex(c->volume_);
        out += ' '; out += vproto::to_hex(c->area_);
        out += ' '; out += vproto::to_hex(c->target_area_);
        if(refine){
            // the live mesh as it is now (taken after the first call: positions and topology do not change)
            std::string head = " " + std::to_string(c->node_lst_.size()) + " " + std::to_string(c->face_lst_.size()) + " "
                             + std::to_string(c->edge_set_.size());
            out.insert(3, head);
            for(const node& n : c->node_lst_){
                out += n.is_used() ? " 1 " : " 0 ";
                out += vproto::to_hex(n.pos_.dx()); out += ' '; out += vproto::to_hex(n.pos_.dy()); out += ' ';
                out += vproto::to_hex(n.pos_.dz());
            }
            for(const face& F : c->face_lst_){
                out += F.is_used() ? " 1 " : " 0 ";
                out += std::to_string(F.n1_id_); out += ' '; out += std::to_string(F.n2_id_); out += ' ';
                out += std::to_string(F.n3_id_); out += ' '; out += std::to_string(F.type_id_);
            }
            for(const edge& e : c->edge_set_){
                out += ' '; out += std::to_string(e.n1()); out += ' '; out += std::to_string(e.n2());
                out += ' '; out += e.is_manifold() ? std::to_string(e.f1()) : std::string("-1");
                out += ' '; out += e.is_manifold() ? std::to_string(e.f2()) : std::string("-1");
            }
        }
        dump();
        // 1..4: one protected term at a time after the same prelude
        for(int term = 1; term <= 4; term++){
            c->growth_rate_ = growth; c->target_volume_ = tvol; reset_forces(*c);
            prelude(*c, dt);
            if(term == 1) c->apply_pressure_on_surface();
            if(term == 2) c->apply_surface_tension_and_membrane_elasticity();
            if(term == 3) c->apply_bending_forces();
            if(term == 4) c->regularize_all_face_angles();
            dump();
        }
        out += '\n';
        std::cout << out;
    }
};

int main(){
    std::ios::sync_with_stdio(false);
    std::string line;
    while(std::getline(std::cin, line)){
        auto w = vproto::split(line);
        if(w.empty() || (w[0] != "forces" && w[0] != "refine") || w.size() < 16){ std::cout << "bad-op\n"; continue; }
        try { cell_tester::run(w, w[0] == "refine"); }
        catch(const std::exception& e){ std::cout << "bad-op\n"; }
    }
    return 0;
}
