// C20 harness: runs the real uspg_3d<int> / uspg_4d<int> of /repo on the scenarios of the line protocol
//   grid <3|4> <min_x min_y min_z max_x max_y max_z voxel_size> <n> <3n coordinates> <m> <3m coordinates>
// (doubles as 16-digit hex).  Objects are 0..n-1 placed in order at the n points, then the m query points
// are asked for their neighbourhood.  Answer (the same text as lean/Driver/C20.lean):
//   nb nx ny nz total c <min corner, max corner> | i <i,j,k per point> | v <voxel content per point> |
//   n <neighbourhood per query> | a <grid content>
// A point whose index lies outside the grid is reported ("oob") and neither placed nor queried: placing it
// would write outside voxel_lst_ (that overflow is shown separately with `--raw`, which does not guard).
#include "proto.hpp"
#include "uspg_3d.hpp"
#include "uspg_4d.hpp"

class uspg_3d_tester { public: template<class T> static size_t size(const uspg_3d<T>& g){ return g.voxel_lst_.size(); } };
class uspg_4d_tester { public: template<class T> static size_t size(const uspg_4d<T>& g){ return g.voxel_lst_.size(); } };

static std::string show(const std::forward_list<int>& l){
    std::string s = "["; bool first = true;
    for(int x : l){ if(!first) s += ","; s += std::to_string(x); first = false; }
    return s + "]";
}
static std::string show(const std::optional<int>& o){ return o ? "[" + std::to_string(*o) + "]" : "[]"; }

template<class G>
static bool in_range(const G& g, const std::array<unsigned,3>& ix){
    const auto nb = g.get_nb_voxels();
    return ix[0] < nb[0] && ix[1] < nb[1] && ix[2] < nb[2];
}

template<class G, class TESTER>
static std::string run(const double* b, const std::vector<double>& p, const std::vector<double>& q, bool raw){
    G g(b[0], b[1], b[2], b[3], b[4], b[5], b[6], p.size() / 3);
    std::ostringstream o;
    const auto nb = g.get_nb_voxels();
    const auto mn = g.get_min_corner(); const auto mx = g.get_max_corner();
    o << "nb " << nb[0] << ' ' << nb[1] << ' ' << nb[2] << ' ' << TESTER::size(g) << " c";
    for(double x : mn) o << ' ' << vproto::to_hex(x);
    for(double x : mx) o << ' ' << vproto::to_hex(x);
    o << " | i";
    const size_t n = p.size() / 3, m = q.size() / 3;
    std::vector<std::array<unsigned,3>> ix(n);
    for(size_t k = 0; k < n; k++){
        ix[k] = g.get_3d_voxel_index(p[3*k], p[3*k+1], p[3*k+2]);
        o << ' ' << ix[k][0] << ',' << ix[k][1] << ',' << ix[k][2];
    }
    for(size_t k = 0; k < n; k++){
        const int obj = static_cast<int>(k);
        if(raw || in_range(g, ix[k])) g.place_object(obj, p[3*k], p[3*k+1], p[3*k+2]);
    }
    o << " | v";
    for(size_t k = 0; k < n; k++){
        if(in_range(g, ix[k])) o << ' ' << show(g.get_voxel_content(ix[k][0], ix[k][1], ix[k][2]));
        else o << " oob";
    }
    o << " | n";
    for(size_t k = 0; k < m; k++){
        const auto iq = g.get_3d_voxel_index(q[3*k], q[3*k+1], q[3*k+2]);
        if(raw || in_range(g, iq)) o << ' ' << show(g.get_neighborhood(q[3*k], q[3*k+1], q[3*k+2]));
        else o << " oob";
    }
    o << " | a " << show(g.get_grid_content());
    return o.str();
}

int main(int argc, char** argv){
    std::ios::sync_with_stdio(false);
    const bool raw = argc > 1 && std::string(argv[1]) == "--raw";
    std::string line;
    while(std::getline(std::cin, line)){
        auto w = vproto::split(line);
        bool ok = w.size() >= 11 && w[0] == "grid" && (w[1] == "3" || w[1] == "4");
        double b[7]; std::vector<double> p, q;
        if(ok){
            try{
                for(int i = 0; i < 7; i++) b[i] = vproto::from_hex(w[2+i]);
                size_t pos = 9;
                const size_t n = std::stoul(w.at(pos++));
                for(size_t i = 0; i < 3*n; i++) p.push_back(vproto::from_hex(w.at(pos++)));
                const size_t m = std::stoul(w.at(pos++));
                for(size_t i = 0; i < 3*m; i++) q.push_back(vproto::from_hex(w.at(pos++)));
                ok = pos == w.size();
            } catch(const std::exception&){ ok = false; }
        }
        if(!ok){ std::cout << "bad-op" << std::endl; continue; }
        if(w[1] == "4") std::cout << run<uspg_4d<int>, uspg_4d_tester>(b, p, q, raw) << std::endl;
        else            std::cout << run<uspg_3d<int>, uspg_3d_tester>(b, p, q, raw) << std::endl;
    }
    return 0;
}
