// Line protocol helpers shared by the harness drivers: doubles travel as 16-digit hex bit patterns.
#ifndef VERIF_PROTO_HPP
#define VERIF_PROTO_HPP
#include <cstdint>
#include <cstring>
#include <cstdio>
#include <string>
#include <vector>
#include <sstream>
#include <iostream>

namespace vproto {
inline double from_hex(const std::string& s){
    uint64_t u = std::stoull(s, nullptr, 16);
    double d; std::memcpy(&d, &u, 8); return d;
}
inline std::string to_hex(double d){
    uint64_t u; std::memcpy(&u, &d, 8);
    char buf[32]; std::snprintf(buf, sizeof buf, "%016llx", (unsigned long long)u);
    return std::string(buf);
}
inline std::vector<std::string> split(const std::string& line){
    std::vector<std::string> out; std::istringstream is(line); std::string w;
    while(is >> w) out.push_back(w);
    return out;
}
}
#endif
