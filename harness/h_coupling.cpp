// Pipeline scenario for C03: steps the REAL solver (contact phase + position update) and reports, after every
// iteration, what the position update left behind:
//   I <iter> live <live nodes of non-static cells> coupled <coupled nodes> onesided <k> unreset <u>
//   O <cell> <node> -> <cell2> <node2> [back <cell3> <node3> | back -]     (first 8 one-sided couplings)
//   U <cell> <node> <fx fy fz hex>                                          (first 8 nodes whose force was not reset)
// "one-sided": node a names b as its partner while b names another node or none (the update lets the cell with the
// higher index move both nodes of a pair, so a is then moved twice or not at all).
// "unreset": a live node of a non-static cell whose force accumulator is not zero after the update, i.e. a node the
// update never integrated.
// usage: h_coupling <param.xml> <iters> <threads>
#include "proto.hpp"
#include "simulation_initializer.hpp"
#include "solver.hpp"
#include <omp.h>

using vproto::to_hex;

class cell_tester {
public:
    static void scan(const std::vector<cell_ptr>& cl, int it){
        size_t live = 0, coupled = 0, onesided = 0, unreset = 0;
        std::ostringstream o, u;
        for(size_t i = 0; i < cl.size(); i++){
            for(const node& n : cl[i]->node_lst_){
                if(!n.is_used_) continue;
                if(!cl[i]->is_static_){
                    live++;
                    if(n.force_.dx() != 0. || n.force_.dy() != 0. || n.force_.dz() != 0.){
                        if(unreset++ < 8) u << "U " << i << ' ' << n.node_id_ << ' ' << to_hex(n.force_.dx()) << ' ' << to_hex(n.force_.dy()) << ' ' << to_hex(n.force_.dz()) << '\n';
                    }
                }
                if(n.coupled_node_.has_value()){
                    coupled++;
                    const auto [c2, n2] = n.coupled_node_.value();
                    if(c2 >= cl.size() || n2 >= cl[c2]->node_lst_.size()){
                        if(onesided++ < 8) o << "O " << i << ' ' << n.node_id_ << " -> " << c2 << ' ' << n2 << " back out-of-range\n";
                        continue;
                    }
                    const node& m = cl[c2]->node_lst_[n2];
                    const bool back = m.is_used_ && m.coupled_node_.has_value() && m.coupled_node_.value().first == i && m.coupled_node_.value().second == n.node_id_;
                    if(!back){
                        if(onesided++ < 8){
                            o << "O " << i << ' ' << n.node_id_ << " -> " << c2 << ' ' << n2 << " back ";
                            if(m.coupled_node_.has_value()) o << m.coupled_node_.value().first << ' ' << m.coupled_node_.value().second << '\n';
                            else o << "-\n";
                        }
                    }
                }
            }
        }
        std::cout << "I " << it << " live " << live << " coupled " << coupled << " onesided " << onesided << " unreset " << unreset << '\n' << o.str() << u.str();
    }
};

class stepping_solver : public solver { public: using solver::solver; };

int main(int argc, char** argv){
    if(argc < 4){ std::cerr << "usage\n"; return 2; }
    const int iters = std::atoi(argv[2]);
    const int threads = std::max(1, std::atoi(argv[3]));
    try{
        simulation_initializer si(argv[1], false);
        stepping_solver s(si.get_simulation_parameters(), si.get_cell_lst(), threads, true, false);
        for(int i = 0; i < iters; i++){ s.run_iteration(); cell_tester::scan(s.get_cell_lst(), i); }
    }
    catch(const std::exception& e){ std::cout << "E " << e.what() << '\n'; return 0; }
    std::cout << "done\n";
    return 0;
}
